package main

// Hand-written witness pairs: one per defect found on the unchanged tree (DESIGN.md section 7).  They run first in the
// pair suite under fixed ids (`w-…`), so that a repaired defect that returns is reported on a minimal input, and so that
// each recorded finding is replayed on every run.

func col(name, typ string, opts ...Opt) ColDef { return ColDef{Name: name, Typ: typ, Opts: opts} }

func tbl(name string, cols ...ColDef) Stmt { return Stmt{Kind: "createTable", T: name, Cols: cols} }

func idx(t, name string, unique bool, cols ...string) Stmt {
	return Stmt{Kind: "createIndex", T: t, A: name, Pk: cols, Unique: unique}
}

func fk(t, name, c, rt, rc string) Stmt {
	return Stmt{Kind: "addFk", T: t, A: name, B: c, RT: rt, RC: rc}
}

var (
	oNotNull = Opt{Kind: "notnull"}
	oPk      = Opt{Kind: "pk"}
)

func oDef(v string) Opt { return Opt{Kind: "default", DTag: "num", Val: v} }

type witness struct {
	id       string
	cfg      runCfg
	old, new []Stmt
}

func ints(names ...string) []ColDef {
	out := []ColDef{}
	for _, n := range names {
		out = append(out, col(n, "int(11)"))
	}
	return out
}

var my = runCfg{dialect: "mysql"}

var pairWitnesses = []witness{
	// shapes the stored seeded changes needed (seeded/<id>/meta.json): kept as fixed cases so that their detection does
	// not depend on what the random generator happens to produce
	// C01-c: one side is a history with a MODIFY COLUMN detour whose first definition carried a comment
	{"w-modify-detour-comment", my,
		[]Stmt{tbl("t", col("a", "int(11)"), col("c", "longtext", Opt{Kind: "comment", Val: "draft"})), {Kind: "modifyColumn", T: "t", Col: col("c", "longtext")}},
		[]Stmt{tbl("t", col("a", "int(11)"), col("c", "longtext"))}},
	// C02-a: two adjacent columns of the old table dropped by one diff
	{"w-adjacent-drops", my, []Stmt{tbl("t", ints("a", "b", "c", "d")...)}, []Stmt{tbl("t", ints("a", "d")...)}},
	// C02-b: an index redefined under its name, with another index type on the old side
	{"w-index-redefined-other-type", my,
		[]Stmt{tbl("t", col("id", "int(11)", oNotNull, oPk), col("a", "int(11)"), col("b", "int(11)")), {Kind: "createIndex", T: "t", A: "ix", Pk: []string{"a"}, Using: "HASH"}},
		[]Stmt{tbl("t", col("id", "int(11)", oNotNull, oPk), col("a", "int(11)"), col("b", "int(11)")), idx("t", "ix", false, "a", "b")}},
	// C02-c: a modified column with a column dropped / added in front of it
	{"w-modified-behind-dropped", my,
		[]Stmt{tbl("t", col("id", "int(11)"), col("code", "varchar(64)"), col("name", "varchar(64)", oNotNull), col("age", "int(11)"))},
		[]Stmt{tbl("t", col("id", "int(11)"), col("name", "varchar(255)"), col("age", "int(11)"))}},
	{"w-modified-behind-added", my,
		[]Stmt{tbl("t", col("id", "int(11)"), col("name", "varchar(64)", oNotNull), col("age", "int(11)"))},
		[]Stmt{tbl("t", col("id", "int(11)"), col("code", "varchar(64)"), col("name", "varchar(255)"), col("age", "int(11)"))}},
	// C13-a: a column added right behind a modified column
	{"w-add-after-modified", my,
		[]Stmt{tbl("t", col("a", "int(11)"), col("b", "int(11)"))},
		[]Stmt{tbl("t", col("a", "bigint(20)"), col("n", "int(11)"), col("b", "int(11)"))}},
	// seeded changes C01-a / C01-b: a foreign key dropped together with its own column (referencing and referenced
	// column names differ), and a foreign key dropped while a sibling column named like the referenced column is dropped
	{"w-fk-dropped-with-its-column", my,
		[]Stmt{tbl("u", col("id", "int(11)", oNotNull, oPk)), tbl("t", ints("id", "uid")...), fk("t", "fk_u_t", "uid", "u", "id")},
		[]Stmt{tbl("u", col("id", "int(11)", oNotNull, oPk)), tbl("t", ints("id")...)}},
	{"w-fk-dropped-sibling-column-dropped", my,
		[]Stmt{tbl("u", col("code", "int(11)", oNotNull, oPk)), tbl("t", ints("id", "ucode", "code")...), fk("t", "fk_u_t", "ucode", "u", "code")},
		[]Stmt{tbl("u", col("code", "int(11)", oNotNull, oPk)), tbl("t", ints("id", "ucode")...)}},
	// seeded change C01-d: the set of dropped columns must be per table — an earlier table drops column `code`, a later
	// table keeps its own `code` and drops the index / foreign key on it
	{"w-cross-table-dropped-column-index", my,
		[]Stmt{tbl("a", ints("id", "code")...), tbl("b", ints("id", "code")...), idx("b", "idx_b_code", false, "code")},
		[]Stmt{tbl("a", ints("id")...), tbl("b", ints("id", "code")...)}},
	{"w-cross-table-dropped-column-fk", my,
		[]Stmt{tbl("u", col("id", "int(11)", oNotNull, oPk)), tbl("a", ints("id", "uid")...), tbl("b", ints("id", "uid")...), fk("b", "fk_u_b", "uid", "u", "id")},
		[]Stmt{tbl("u", col("id", "int(11)", oNotNull, oPk)), tbl("a", ints("id")...), tbl("b", ints("id", "uid")...)}},
	// F2: restored column position computed from the old index instead of the merged position
	{"w-F2-down-position", my, []Stmt{tbl("t", ints("a", "b", "c", "d")...)}, []Stmt{tbl("t", ints("z", "a", "b", "e", "d", "f")...)}},
	// F3: option kinds changed, count unchanged
	{"w-F3-option-kinds", my, []Stmt{tbl("t", col("a", "int(11)", oNotNull))}, []Stmt{tbl("t", col("a", "int(11)", oDef("1")))}},
	// F4: index redefined under the same name
	{"w-F4-index-redefined", my, []Stmt{tbl("t", ints("a", "b")...), idx("t", "i", false, "a")}, []Stmt{tbl("t", ints("a", "b")...), idx("t", "i", false, "b")}},
	// F5: index (b,c) dropped together with its first column only
	{"w-F5-index-first-col-dropped", my, []Stmt{tbl("t", ints("a", "b", "c")...), idx("t", "i", false, "b", "c")}, []Stmt{tbl("t", ints("a", "c")...)}},
	// F6: ALTER … ADD PRIMARY KEY / ADD CONSTRAINT / positional ADD use the cursor's table
	{"w-F6-addpk-cursor", my, nil, []Stmt{tbl("t", ints("a", "b")...), tbl("u", ints("x")...), {Kind: "addPk", T: "t", Pk: []string{"a", "b"}}}},
	{"w-F6-two-fks", my, nil, []Stmt{tbl("u", col("id", "int(11)", oNotNull, oPk)), tbl("v", col("id", "int(11)", oNotNull, oPk)),
		tbl("t", ints("id", "uid", "vid")...), fk("t", "fk_u_t", "uid", "u", "id"), fk("t", "fk_v_t", "vid", "v", "id")}},
	{"w-F6-position-cursor", my, nil, []Stmt{tbl("t", ints("a", "b")...), tbl("u", ints("x")...),
		{Kind: "addColumn", T: "t", Col: col("c", "int(11)"), Pos: "first"}}},
	// F12: ignore-field-order still prints FIRST
	{"w-F12-ignore-order-first", runCfg{dialect: "mysql", ignore: true}, []Stmt{tbl("t", ints("a")...)}, []Stmt{tbl("t", ints("a", "b")...)}},
	// F27: adding a foreign key also modifies the column
	{"w-F27-fk-modifies-column", my, []Stmt{tbl("u", col("id", "int(11)", oNotNull, oPk)), tbl("t", ints("id", "uid")...)},
		[]Stmt{tbl("u", col("id", "int(11)", oNotNull, oPk)), tbl("t", ints("id", "uid")...), fk("t", "fk_u_t", "uid", "u", "id")}},
	// F10: a table created and dropped in the old history is dropped again / re-created
	{"w-F10-tombstone-table", my, []Stmt{tbl("t", ints("a")...), tbl("x", ints("a")...), {Kind: "dropTable", T: "x"}}, []Stmt{tbl("t", ints("a")...)}},
	// F23: foreign key printed before the referenced table is created
	{"w-F23-fk-before-table", my, nil, []Stmt{tbl("v", col("id", "int(11)", oNotNull, oPk)), tbl("t", ints("id", "vid")...), fk("t", "fk_v_t", "vid", "v", "id")}},
}

var pg = runCfg{dialect: "postgres"}

func init() {
	pairWitnesses = append(pairWitnesses,
		// C01-e: postgres retypes that keep the type name and change only length / precision / scale
		witness{"w-pg-retype-parameters", pg,
			[]Stmt{tbl("t", col("a", "INT8"), col("p", "DECIMAL(10,2)"), col("v", "VARCHAR(64)"))},
			[]Stmt{tbl("t", col("a", "INT8"), col("p", "DECIMAL(12,4)"), col("v", "VARCHAR(128)"))}},
		// C07-e: a mixed-case column under a stand-alone CREATE INDEX
		witness{"w-mixed-case-indexed-column", my,
			[]Stmt{tbl("t", col("id", "int(11)"), col("userName", "varchar(64)"))},
			[]Stmt{tbl("t", col("id", "int(11)"), col("userName", "varchar(64)")), idx("t", "idx_user_name", false, "userName")}})
	pairWitnesses = append(pairWitnesses,
		// C01-g: an index on the table created first, declared after the second table
		witness{"w-index-on-earlier-table-sqlite", lite,
			[]Stmt{tbl("a", typed("INTEGER", "id", "x")...), tbl("b", typed("INTEGER", "id")...)},
			[]Stmt{tbl("a", typed("INTEGER", "id", "x")...), tbl("b", typed("INTEGER", "id")...), idx("a", "ia", false, "x")}},
		witness{"w-index-on-earlier-table-mysql", my,
			[]Stmt{tbl("a", ints("id", "x")...), tbl("b", ints("id")...)},
			[]Stmt{tbl("a", ints("id", "x")...), tbl("b", ints("id")...), idx("a", "ia", false, "x")}})
	for _, cfg := range []runCfg{my, pg} {
		// C04-g: the bookkeeping table declared first and unchanged; behind it one table altered, one dropped, one created
		it := map[string]string{"mysql": "int(11)", "postgres": "INT8"}[cfg.dialect]
		book := tbl("schema_migrations", typed(it, "version", "dirty")...)
		pairWitnesses = append(pairWitnesses, witness{"w-bookkeeping-table-first-" + cfg.dialect, cfg,
			[]Stmt{book, tbl("t", typed(it, "a")...), tbl("gone", typed(it, "g")...)},
			[]Stmt{book, tbl("t", typed(it, "a", "b")...), tbl("fresh", typed(it, "f")...)}})
	}
	pairWitnesses = append(pairWitnesses,
		// C03-l: the same unsigned integer column written with and without its display width
		witness{"w-equal-schemas-unsigned-with-and-without-width", my,
			[]Stmt{tbl("t", col("id", "int(11)"), col("c", "int(11) UNSIGNED"), col("d", "smallint(6) UNSIGNED"), col("e", "tinyint(4) UNSIGNED"),
				col("f", "int(11) UNSIGNED"), col("g", "smallint(6) UNSIGNED"), col("h", "int(11) UNSIGNED"))},
			[]Stmt{tbl("t", col("id", "int(11)"), col("c", "int(11) UNSIGNED"), col("d", "smallint(6) UNSIGNED"), col("e", "tinyint(4) UNSIGNED"),
				col("f", "int(11) UNSIGNED"), col("g", "smallint(6) UNSIGNED"), col("h", "int(11) UNSIGNED"))}})
	pairWitnesses = append(pairWitnesses,
		// C03-k / C05-j: one side is a history that drops a column carried by two adjacent indexes (alone in the first): the
		// same schema written directly diffs to nothing
		witness{"w-equal-schemas-history-dropped-column-of-two-indexes", my,
			[]Stmt{tbl("t", ints("id", "a", "b")...), idx("t", "k_b", false, "b"), idx("t", "k_ba", false, "b", "a"), {Kind: "dropColumn", T: "t", A: "b"}},
			[]Stmt{tbl("t", ints("id", "a")...), idx("t", "k_ba", false, "a")}},
		witness{"w-equal-schemas-history-dropped-column-of-two-indexes-new-side", my,
			[]Stmt{tbl("t", ints("id", "a")...), idx("t", "k_ba", false, "a")},
			[]Stmt{tbl("t", ints("id", "a", "b")...), idx("t", "k_b", false, "b"), idx("t", "k_ba", false, "b", "a"), {Kind: "dropColumn", T: "t", A: "b"}}})
	pairWitnesses = append(pairWitnesses,
		// C01-j: a history that creates and drops a table, diffed against a schema that still has it (both directions),
		// and a table re-created after the drop while another table follows it
		witness{"w-history-dropped-first-table-other-side-has-it", my,
			[]Stmt{tbl("a", ints("x")...), tbl("b", ints("y")...)},
			[]Stmt{tbl("a", ints("x")...), tbl("b", ints("y")...), {Kind: "dropTable", T: "a"}}},
		witness{"w-old-history-dropped-first-table-new-side-has-it", my,
			[]Stmt{tbl("a", ints("x")...), tbl("b", ints("y")...), {Kind: "dropTable", T: "a"}},
			[]Stmt{tbl("a", ints("x")...), tbl("b", ints("y")...)}},
		witness{"w-history-dropped-table-recreated-before-later-change", my,
			[]Stmt{tbl("a", ints("x")...), tbl("b", ints("y")...)},
			[]Stmt{tbl("a", ints("x")...), tbl("b", ints("y")...), {Kind: "dropTable", T: "a"}, tbl("a", ints("x", "z")...),
				{Kind: "addColumn", T: "b", Col: col("w", "int(11)"), Pos: "none"}}},
		witness{"w-history-dropped-last-table-other-side-has-it", my,
			[]Stmt{tbl("a", ints("x")...), tbl("b", ints("y")...), {Kind: "dropTable", T: "b"}},
			[]Stmt{tbl("a", ints("x")...), tbl("b", ints("y")...)}})
	pairWitnesses = append(pairWitnesses,
		// C01-n: two foreign keys dropped in one step, the first-declared together with its column, the second on a column
		// that stays (and the mirror image for the down direction: two keys added, the first with its column)
		witness{"w-two-fks-dropped-first-with-its-column", my,
			[]Stmt{tbl("u", col("id", "int(11)", oNotNull, oPk)), tbl("t", ints("id", "a", "b")...),
				fk("t", "fk_u_a", "a", "u", "id"), fk("t", "fk_u_b", "b", "u", "id")},
			[]Stmt{tbl("u", col("id", "int(11)", oNotNull, oPk)), tbl("t", ints("id", "b")...)}},
		witness{"w-two-fks-added-first-with-its-column", my,
			[]Stmt{tbl("u", col("id", "int(11)", oNotNull, oPk)), tbl("t", ints("id", "b")...)},
			[]Stmt{tbl("u", col("id", "int(11)", oNotNull, oPk)), tbl("t", ints("id", "a", "b")...),
				fk("t", "fk_u_a", "a", "u", "id"), fk("t", "fk_u_b", "b", "u", "id")}})
	pairWitnesses = append(pairWitnesses,
		// FX-key-words-in-comment: the MODIFY of a column that is a key on both sides cut the first " PRIMARY KEY" out of the
		// rendered definition — a comment containing the words was hit instead of the option (both keyword cases, both directions)
		witness{"w-key-column-comment-contains-key-words-lower", runCfg{dialect: "mysql", lower: true},
			[]Stmt{tbl("t", col("id", "int(11)", oPk, Opt{Kind: "comment", Val: "x"}), col("a", "int(11)"))},
			[]Stmt{tbl("t", col("id", "int(11)", Opt{Kind: "comment", Val: "the primary key"}, oPk), col("a", "int(11)"))}},
		witness{"w-key-column-comment-contains-key-words-upper", my,
			[]Stmt{tbl("t", col("id", "int(11)", Opt{Kind: "comment", Val: "a PRIMARY KEY b"}, oPk), col("a", "int(11)"))},
			[]Stmt{tbl("t", col("id", "int(11)", oPk, Opt{Kind: "comment", Val: "x"}), col("a", "int(11)"))}})
	pairWitnesses = append(pairWitnesses,
		// C09-i: the old side is a history that dropped the first of two foreign keys
		witness{"w-old-history-dropped-first-fk", my,
			[]Stmt{tbl("u", col("id", "int(11)", oNotNull, oPk)), tbl("t", ints("id", "a", "b")...),
				fk("t", "fk_u_a", "a", "u", "id"), fk("t", "fk_u_b", "b", "u", "id"), {Kind: "dropFk", T: "t", A: "fk_u_a"}},
			[]Stmt{tbl("u", col("id", "int(11)", oNotNull, oPk)), tbl("t", ints("id", "a", "b")...), fk("t", "fk_u_b", "b", "u", "id")}})
	pairWitnesses = append(pairWitnesses,
		// C01-h: an inline key column that changes while PRIMARY KEY is not the last option of its definition
		witness{"w-key-column-retyped-key-not-last", my,
			[]Stmt{tbl("account", col("id", "int(11)", oPk, Opt{Kind: "comment", Val: "account id"}), col("name", "varchar(64)"))},
			[]Stmt{tbl("account", col("id", "bigint(20)", oPk, Opt{Kind: "comment", Val: "account id"}), col("name", "varchar(64)"))}},
		witness{"w-key-column-reoptioned-key-first", my,
			[]Stmt{tbl("account", col("id", "int(11)", oPk, oNotNull), col("name", "varchar(64)"))},
			[]Stmt{tbl("account", col("id", "int(11)", oPk, oNotNull, Opt{Kind: "autoinc"}), col("name", "varchar(64)"))}})
	pairWitnesses = append(pairWitnesses,
		// a column retyped by ALTER COLUMN … TYPE on the new side only: the diff must carry the new type
		witness{"w-pg-alter-column-type-new-side", pg,
			[]Stmt{tbl("t", col("a", "INT8"), col("b", "VARCHAR(64)"))},
			[]Stmt{tbl("t", col("a", "INT8"), col("b", "VARCHAR(64)")), {Kind: "alterType", T: "t", A: "b", B: "STRING"}}},
		witness{"w-pg-drop-not-null-new-side", pg,
			[]Stmt{tbl("t", col("a", "INT8"), col("b", "VARCHAR(64)"))},
			[]Stmt{tbl("t", col("a", "INT8"), col("b", "VARCHAR(64)")), {Kind: "dropNotNull", T: "t", A: "b"}}})
	pairWitnesses = append(pairWitnesses,
		// C09-f: the postgres walker files DROP INDEX under the table created last, leaving a record without columns there;
		// the other side defines an index of that name on that table
		witness{"w-pg-columnless-index-redefined", pg,
			[]Stmt{tbl("a", typed("INT8", "x")...), idx("a", "ia", false, "x"), tbl("b", typed("INT8", "y")...), {Kind: "dropIndex", T: "a", A: "ia"}},
			[]Stmt{tbl("a", typed("INT8", "x")...), tbl("b", typed("INT8", "y")...), idx("b", "ia", false, "y")}})
	scriptWitnesses = append(scriptWitnesses,
		// C05-f: postgres ADD COLUMN with an inline key on a table that is not the one created last
		scriptWitness{"w-pg-add-column-inline-key-earlier-table", pg, []Stmt{tbl("account", typed("INT8", "n")...), tbl("audit", col("id", "INT8", oPk)),
			{Kind: "addColumn", T: "account", Col: col("account_id", "INT8", oPk), Pos: "none"}}},
		scriptWitness{"w-mixed-case-indexed-column", my, []Stmt{tbl("t", col("id", "int(11)"), col("userName", "varchar(64)")), idx("t", "idx_user_name", false, "userName")}})
}

var lite = runCfg{dialect: "sqlite3"}

func typed(typ string, names ...string) []ColDef {
	out := []ColDef{}
	for _, n := range names {
		out = append(out, col(n, typ))
	}
	return out
}

// witnesses of the recorded (not repaired) findings; ids are referenced from /verif/known_findings.json
var findingWitnesses = []witness{
	{"w-KF-pk-changed", my, []Stmt{tbl("t", col("id", "int(11)"))}, []Stmt{tbl("t", col("id", "int(11)", oNotNull, oPk))}},
	{"w-KF-index-redefined-old-columns-dropped", my, []Stmt{tbl("t", ints("a", "b")...), idx("t", "i", false, "a")}, []Stmt{tbl("t", ints("b")...), idx("t", "i", false, "b")}},
	{"w-KF-foreign-key-redefined", my, []Stmt{tbl("s", ints("id", "idx")...), tbl("t", ints("id", "sid")...), fk("t", "fk_s_t", "sid", "s", "id")},
		[]Stmt{tbl("s", ints("id", "idx")...), tbl("t", ints("id", "sid")...), fk("t", "fk_s_t", "sid", "s", "idx")}},
	{"w-KF-postgres-column-options", pg, nil, []Stmt{tbl("t", col("a", "INT8", oNotNull), col("b", "INT8", oDef("7")))}},
	{"w-KF-postgres-foreign-keys", pg, []Stmt{tbl("group", typed("INT8", "id")...), tbl("orders", typed("INT8", "id")...)},
		[]Stmt{tbl("group", typed("INT8", "id")...), tbl("orders", typed("INT8", "id")...), fk("group", "fk_orders_group", "id", "orders", "id")}},
	{"w-KF-sqlite-default-values", lite, nil, []Stmt{tbl("t", col("a", "INTEGER", oDef("1")))}},
	{"w-KF-sqlite-foreign-keys", lite, []Stmt{tbl("u", typed("INTEGER", "id")...), tbl("t", typed("INTEGER", "id", "uid")...)},
		[]Stmt{tbl("u", typed("INTEGER", "id")...), tbl("t", typed("INTEGER", "id", "uid")...), fk("t", "fk_u_t", "uid", "u", "id")}},
	{"w-KF-sqlite-column-redefined", lite, []Stmt{tbl("t", col("a", "INTEGER"))}, []Stmt{tbl("t", col("a", "TEXT"))}},
}

func runWitnesses(c *ctx) {
	for _, w := range findingWitnesses {
		runPair(c, w.id, w.cfg, w.old, w.new, sqlStyle{dialect: w.cfg.dialect})
		c.count("witness_cases")
	}
	for _, w := range pairWitnesses {
		runPair(c, w.id, w.cfg, w.old, w.new, sqlStyle{dialect: w.cfg.dialect})
		c.count("witness_cases")
	}
}

type scriptWitness struct {
	id  string
	cfg runCfg
	ss  []Stmt
}

var scriptWitnesses = []scriptWitness{
	// seeded change C05-l: a positional ADD COLUMN whose anchor has upper-case letters in its name
	{"w-add-after-mixed-case-column", my, []Stmt{tbl("account", ints("id", "userName", "email")...),
		{Kind: "addColumn", T: "account", Col: col("nickName", "varchar(64)"), Pos: "after", After: "userName"}}},
	{"w-add-after-mixed-case-column-twice", my, []Stmt{tbl("Account", ints("ID", "UserName", "Email")...),
		{Kind: "addColumn", T: "Account", Col: col("NickName", "varchar(64)"), Pos: "after", After: "ID"},
		{Kind: "addColumn", T: "Account", Col: col("Age", "int(11)"), Pos: "after", After: "NickName"}}},
	// F1/F25: a dropped column re-added with a position
	{"w-F1-readd-after", my, []Stmt{tbl("t", ints("a", "b", "c")...), {Kind: "dropColumn", T: "t", A: "a"}, {Kind: "addColumn", T: "t", Col: col("a", "int(11)"), Pos: "after", After: "c"}}},
	{"w-F25-readd-slot", my, []Stmt{tbl("t", ints("a", "b", "c")...), {Kind: "dropColumn", T: "t", A: "b"}, {Kind: "addColumn", T: "t", Col: col("b", "int(11)"), Pos: "none"}}},
	// F8: MODIFY COLUMN accumulates options
	{"w-F8-modify-duplicates-options", my, []Stmt{tbl("t", col("a", "int(11)"), col("b", "varchar(64)", oNotNull)), {Kind: "modifyColumn", T: "t", Col: col("b", "varchar(255)", oNotNull)}}},
	// F9: USING lost, renamed index vanishes
	{"w-F9-using-lost", my, []Stmt{tbl("t", ints("a", "b")...), {Kind: "createIndex", T: "t", A: "i", Pk: []string{"a"}, Using: "HASH"}}},
	{"w-F9-rename-index", my, []Stmt{tbl("t", ints("a", "b")...), idx("t", "i", false, "a"), {Kind: "renameIndex", T: "t", A: "i", B: "j"}}},
	// F7 (fixed): DROP FOREIGN KEY
	{"w-F7-drop-foreign-key", my, []Stmt{tbl("u", col("id", "int(11)", oNotNull, oPk)), tbl("t", ints("id", "uid")...), fk("t", "fk_u_t", "uid", "u", "id"), {Kind: "dropFk", T: "t", A: "fk_u_t"}}},
	// dropped indexed column: the index keeps the stale column
	{"w-drop-indexed-column", my, []Stmt{tbl("t", ints("a", "b")...), idx("t", "i", false, "b"), {Kind: "dropColumn", T: "t", A: "b"}}},
	// F10 (dump side): a dropped table
	{"w-F10-dropped-table-dump", my, []Stmt{tbl("t", ints("a")...), tbl("x", ints("a")...), {Kind: "dropTable", T: "x"}}},
	// recorded findings (ids referenced from known_findings.json)
	{"w-KF-pk-column-modified", my, []Stmt{tbl("t", col("id", "int(11)", oNotNull, oPk), col("a", "int(11)")), {Kind: "modifyColumn", T: "t", Col: col("id", "bigint(20)", oNotNull)}}},
	{"w-KF-rename-column", my, []Stmt{tbl("t", ints("a", "b")...), idx("t", "i", false, "a"), {Kind: "renameColumn", T: "t", A: "a", B: "z"}}},
	{"w-KF-postgres-reader-vocabulary", pg, []Stmt{tbl("t", col("a", "INT8", oNotNull)), tbl("u", typed("INT8", "x")...), idx("t", "i", false, "a")}},
	{"w-KF-sqlite-reader-vocabulary", lite, []Stmt{tbl("t", col("a", "INTEGER", oDef("1")))}},
	// C05-a: a positional ADD COLUMN names its table while the cursor is on another one
	{"w-position-other-table", my, []Stmt{tbl("t", ints("a", "b")...), tbl("u", ints("x")...), {Kind: "addColumn", T: "t", Col: col("c", "int(11)"), Pos: "after", After: "a"}}},
	// C05-b: postgres ADD COLUMN on an earlier table, then an index on the table created last
	// the Postgres spellings of MODIFY COLUMN, one aspect at a time (FX-pg-alter-column-type, FX-pg-drop-not-null)
	{"w-pg-alter-column-type", pg, []Stmt{tbl("t", col("a", "INT8"), col("b", "VARCHAR(64)")), {Kind: "alterType", T: "t", A: "b", B: "STRING"}}},
	{"w-pg-alter-column-type-later-call", pg, []Stmt{tbl("t", col("a", "INT8"), col("b", "VARCHAR(64)")), idx("t", "ib", false, "b"), {Kind: "addColumn", T: "t", Col: col("c", "INT4"), Pos: "none"},
		{Kind: "alterType", T: "t", A: "c", B: "INT8"}, {Kind: "alterType", T: "t", A: "a", B: "INT4"}}},
	{"w-pg-drop-not-null", pg, []Stmt{tbl("t", col("a", "INT8"), col("b", "VARCHAR(64)")), {Kind: "dropNotNull", T: "t", A: "b"}}},
	// C09-i: two foreign keys of one table added in the same history, the first dropped, then the second looked up by name
	{"w-two-fks-first-dropped-then-second", my, []Stmt{tbl("u", col("id", "int(11)", oNotNull, oPk)), tbl("t", ints("id", "a", "b")...),
		fk("t", "fk_u_a", "a", "u", "id"), fk("t", "fk_u_b", "b", "u", "id"), {Kind: "dropFk", T: "t", A: "fk_u_a"}, {Kind: "dropFk", T: "t", A: "fk_u_b"}}},
	// found by a sub-agent of round 10 on the unchanged tree (FX-pg-comment-null, FX-renamed-column-dropped)
	{"w-pg-comment-is-null", pg, []Stmt{tbl("t", col("a", "INT8"), col("b", "INT8")), {Kind: "commentOn", T: "t", A: "a", B: "first"}, {Kind: "commentOn", T: "t", A: "a", B: ""},
		{Kind: "commentOn", T: "t", A: "b", B: ""}}},
	{"w-renamed-column-dropped-readded", my, []Stmt{tbl("t", ints("a", "b")...), {Kind: "renameColumn", T: "t", A: "a", B: "c"}, {Kind: "dropColumn", T: "t", A: "c"},
		{Kind: "addColumn", T: "t", Col: col("c", "int(11)"), Pos: "after", After: "b"}}},
	{"w-renamed-column-dropped-readded-first", my, []Stmt{tbl("t", ints("a", "b", "d")...), idx("t", "i", false, "b"), {Kind: "renameColumn", T: "t", A: "b", B: "c"}, {Kind: "dropColumn", T: "t", A: "c"},
		{Kind: "addColumn", T: "t", Col: col("b", "int(11)"), Pos: "first"}, {Kind: "addColumn", T: "t", Col: col("c", "int(11)"), Pos: "after", After: "d"}}},
	// C05-h: a renamed column (its record has the action `rename`), then DROP NOT NULL on it
	{"w-pg-rename-then-drop-not-null", pg, []Stmt{tbl("t", col("a", "INT8"), col("heading", "VARCHAR(64)")), {Kind: "renameColumn", T: "t", A: "heading", B: "title"},
		{Kind: "dropNotNull", T: "t", A: "title"}, {Kind: "alterType", T: "t", A: "a", B: "INT4"}}},
	{"w-pg-add-column-then-index", pg, []Stmt{tbl("a", typed("INT8", "id")...), tbl("b", typed("INT8", "id", "k")...), {Kind: "addColumn", T: "a", Col: col("n", "INT8"), Pos: "none"}, idx("b", "idx_b_k", false, "k")}},
	// C05-c / C09-a / C09-b: two indexes, the first dropped, then the second named again; a column with its own index dropped
	{"w-drop-first-index-then-rename-second", my, []Stmt{tbl("t", ints("a", "b", "c")...), idx("t", "i1", false, "a"), idx("t", "i2", false, "b"), {Kind: "dropIndex", T: "t", A: "i1"}, {Kind: "renameIndex", T: "t", A: "i2", B: "j2"}}},
	{"w-drop-first-index-then-drop-second", my, []Stmt{tbl("t", ints("a", "b", "c")...), idx("t", "i1", false, "a"), idx("t", "i2", true, "b"), {Kind: "dropIndex", T: "t", A: "i1"}, {Kind: "dropIndex", T: "t", A: "i2"}}},
	{"w-drop-column-with-first-of-two-indexes", my, []Stmt{tbl("t", col("id", "int(11)", oNotNull, oPk), col("a", "int(11)"), col("b", "int(11)")), idx("t", "idx_a", false, "a"), idx("t", "idx_b", false, "b"), {Kind: "dropColumn", T: "t", A: "a"}}},
	// C09-d: a created table whose non-first column was renamed to the longest name
	{"w-rename-to-longest-name", my, []Stmt{tbl("city", col("id", "int(11)", oNotNull, oPk), col("nm", "varchar(64)"), col("zip", "int(11)")), {Kind: "renameColumn", T: "city", A: "nm", B: "display_name"}}},
	// seeded change C05-d: an index names its table; it is not filed under the table created last
	{"w-index-on-earlier-table-sqlite", lite, []Stmt{tbl("a", typed("INTEGER", "id", "name")...), tbl("b", typed("INTEGER", "id")...), idx("a", "idx_a_name", false, "name")}},
	{"w-index-on-earlier-table-mysql", my, []Stmt{tbl("a", ints("id", "name")...), tbl("b", ints("id")...), idx("a", "idx_a_name", false, "name")}},
	// every column dropped: the dump used to index t.Columns[0] (repaired)
	{"w-all-columns-dropped", pg, []Stmt{tbl("t", typed("INT8", "a", "b")...), {Kind: "dropColumn", T: "t", A: "a"}, {Kind: "dropColumn", T: "t", A: "b"}}},
	{"w-F13-rename-then-drop", my, []Stmt{tbl("t", ints("a", "b")...), {Kind: "renameColumn", T: "t", A: "a", B: "z"}, {Kind: "dropColumn", T: "t", A: "z"}}},
}

func runScriptWitnesses(c *ctx) {
	for _, w := range scriptWitnesses {
		runScript(c, w.id, w.cfg, w.ss, sqlStyle{dialect: w.cfg.dialect}, []int{1, 2})
		c.count("witness_cases")
	}
}
