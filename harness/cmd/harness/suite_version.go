package main

import (
	"fmt"
	"math"

	"github.com/sunary/sqlize"
)

// Suite version (C12): bookkeeping statements for all dialects x keyword case x table names x versions x dirty, on an
// empty and on a diffed instance; and histories that contain the bookkeeping table itself.

func init() { suites["version"] = suiteVersion }

func suiteVersion(c *ctx) {
	tables := []string{"schema_migrations", "my_ver", "Weird Name", "t`x", "sch\"ema", "%s", "UPPER_case", "x.y", "émigré", ""}
	versions := []int64{0, 1, -1, 42, 20260930161029, math.MaxInt64, math.MinInt64}
	id := 0
	for _, d := range []string{"mysql", "postgres", "sqlite3"} {
		for _, lower := range []bool{false, true} {
			for _, tb := range tables {
				for _, v := range versions {
					for _, dirty := range []bool{false, true} {
						cfg := runCfg{dialect: d, lower: lower}
						s := cfg.newSqlize(sqlize.WithMigrationTable(tb))
						if id%2 == 1 {
							// another instance with the other keyword case and another dialect is constructed before the calls
							// (seeded change C12-f: the bookkeeping statement rendered with the templates of the last constructor)
							other := map[string]string{"mysql": "postgres", "postgres": "sqlite3", "sqlite3": "mysql"}[d]
							_ = runCfg{dialect: other, lower: !lower}.newSqlize(sqlize.WithMigrationTable("decoy"))
						}
						up := guard(func() string { return s.StringUpWithVersion(v, dirty) })
						down := guard(func() string { return s.StringDownWithVersion(v) })
						c.emit(fmt.Sprintf("v%d", id), "version", cfg.sexp(), q(tb), fmt.Sprint(v), b2s(dirty), q(""), q(""), q(up), q(down))
						c.nontrivial(fmt.Sprint(d, lower, tb, v, dirty))
						id++
					}
				}
			}
		}
	}
	c.counts["grid_cases"] = id
	// on a diffed instance: plain migration + "\n" + bookkeeping
	n := 200
	if c.tier == "thorough" {
		n = 2000
	}
	for i := 0; i < n; i++ {
		dialect := []string{"mysql", "postgres", "sqlite3"}[c.rng.Intn(3)]
		cfg := runCfg{dialect: dialect, lower: c.rng.Intn(2) == 0}
		g := &gen{rng: c.rng, dialect: dialect, noDefaults: dialect == "sqlite3"}
		so := schemaOpts{maxTables: 2, maxCols: 3, indexes: true}
		old := g.schema(so)
		nw := g.mutate(old, mutateOpts{schemaOpts: so, edits: 1 + c.rng.Intn(3), retype: true, reopt: true}, c)
		tb := tables[c.rng.Intn(len(tables))]
		v := versions[c.rng.Intn(len(versions))]
		dirty := c.rng.Intn(2) == 0
		a, b := cfg.newSqlize(sqlize.WithMigrationTable(tb)), cfg.newSqlize(sqlize.WithMigrationTable(tb))
		st := sqlStyle{dialect: dialect}
		load(a, cfg, st, old.scriptGrouped())
		load(b, cfg, st, nw.scriptGrouped())
		guard(func() string { b.Diff(*a); return "" })
		plainUp := guard(func() string { return b.StringUp() })
		plainDown := guard(func() string { return b.StringDown() })
		up := guard(func() string { return b.StringUpWithVersion(v, dirty) })
		down := guard(func() string { return b.StringDownWithVersion(v) })
		c.emit(fmt.Sprintf("d%d", i), "version", cfg.sexp(), q(tb), fmt.Sprint(v), b2s(dirty), q(plainUp), q(plainDown), q(up), q(down))
		c.nontrivial(fmt.Sprint("d", i, plainUp))
	}
	// histories containing the bookkeeping table on either side of a diff
	for i, tb := range []string{"schema_migrations", "my_ver"} {
		for _, side := range []string{"old", "new", "both"} {
			for _, d := range []string{"mysql", "postgres"} {
				cfg := runCfg{dialect: d}
				intT := "int(11)"
				if d == "postgres" {
					intT = "INT8"
				}
				book := tbl(tb, col("version", intT), col("dirty", intT))
				data := tbl("t", col("a", intT))
				oldS, newS := []Stmt{data}, []Stmt{data}
				if side == "old" || side == "both" {
					oldS = append(oldS, book)
				}
				if side == "new" || side == "both" {
					newS = append(newS, book, Stmt{Kind: "addColumn", T: tb, Col: col("extra", intT), Pos: "none"})
				}
				a, b := cfg.newSqlize(sqlize.WithMigrationTable(tb)), cfg.newSqlize(sqlize.WithMigrationTable(tb))
				st := sqlStyle{dialect: d}
				load(a, cfg, st, oldS)
				load(b, cfg, st, newS)
				guard(func() string { b.Diff(*a); return "" })
				up := guard(func() string { return b.StringUp() })
				down := guard(func() string { return b.StringDown() })
				c.emit(fmt.Sprintf("h%d-%s-%s", i, side, d), "versionexcl", cfg.sexp(), q(tb), q(up), q(down))
				c.count("exclusion_cases")
			}
		}
	}
}
