package main

import (
	"fmt"
	"os"
)

func main() {
	if len(os.Args) < 2 {
		fmt.Fprintln(os.Stderr, "usage: harness <suite> [flags]")
		os.Exit(2)
	}
	run(os.Args[1], os.Args[2:])
}
