package main

import (
	"fmt"
	"strings"
)

// S-expression writer: the wire format read by the Lean driver (Base/SExp.lean).

type sx interface{}

func q(s string) string {
	var b strings.Builder
	b.WriteByte('"')
	for i := 0; i < len(s); i++ {
		c := s[i]
		switch {
		case c == '"':
			b.WriteString("\\\"")
		case c == '\\':
			b.WriteString("\\\\")
		case c == '\n':
			b.WriteString("\\n")
		case c == '\t':
			b.WriteString("\\t")
		case c == '\r':
			b.WriteString("\\r")
		case c < 32 || c >= 127:
			fmt.Fprintf(&b, "\\x%02x", c)
		default:
			b.WriteByte(c)
		}
	}
	b.WriteByte('"')
	return b.String()
}

// L builds a list from already rendered elements.
func L(elems ...string) string {
	return "(" + strings.Join(elems, " ") + ")"
}

func qs(ss []string) string {
	out := make([]string, len(ss))
	for i := range ss {
		out[i] = q(ss[i])
	}
	return L(out...)
}

func b2s(b bool) string {
	if b {
		return "true"
	}
	return "false"
}
