package main

import (
	"bytes"
	"fmt"
	"reflect"
	"sort"
	"strings"
	"unsafe"

	"github.com/pingcap/parser/ast"
	"github.com/pingcap/parser/format"
	"github.com/sunary/sqlize"
	"github.com/sunary/sqlize/element"
	sql_parser "github.com/sunary/sqlize/sql-parser"
)

// White-box access to the loaded model: exported fields directly, unexported ones through reflect (read only).

func unexported(v reflect.Value, name string) reflect.Value {
	f := v.FieldByName(name)
	return reflect.NewAt(f.Type(), unsafe.Pointer(f.UnsafeAddr())).Elem()
}

func parserOf(s *sqlize.Sqlize) *sql_parser.Parser {
	v := reflect.ValueOf(s).Elem()
	return unexported(v, "parser").Interface().(*sql_parser.Parser)
}

func migrationOf(s *sqlize.Sqlize) *element.Migration {
	return &parserOf(s).Migration
}

func mapDump(m map[string]int) string {
	keys := make([]string, 0, len(m))
	for k := range m {
		keys = append(keys, k)
	}
	sort.Strings(keys)
	parts := make([]string, len(keys))
	for i, k := range keys {
		parts[i] = fmt.Sprintf("%s=%d", k, m[k])
	}
	return strings.Join(parts, ",")
}

func restoreUpper(n interface {
	Restore(ctx *format.RestoreCtx) error
}) (res string) {
	defer func() {
		if r := recover(); r != nil {
			res = "<restore-panic>"
		}
	}()
	var b bytes.Buffer
	ctx := format.NewRestoreCtx(element.UppercaseRestoreFlag, &b)
	_ = n.Restore(ctx)
	return b.String()
}

func optDump(o *ast.ColumnOption) string {
	switch o.Tp {
	case ast.ColumnOptionPrimaryKey:
		return "pk"
	case ast.ColumnOptionNotNull:
		return "notnull"
	case ast.ColumnOptionNull:
		return "null"
	case ast.ColumnOptionAutoIncrement:
		return "autoinc"
	case ast.ColumnOptionUniqKey:
		return "uniq"
	case ast.ColumnOptionReference:
		return "reference"
	case ast.ColumnOptionComment:
		if o.Expr == nil {
			return "comment-raw=" + o.StrValue
		}
		if ve, ok := o.Expr.(ast.ValueExpr); ok {
			return "comment=" + fmt.Sprint(ve.GetValue())
		}
		return "comment=" + restoreUpper(o.Expr)
	case ast.ColumnOptionDefaultValue:
		if o.Expr == nil {
			return "default-raw=" + o.StrValue
		}
		return "default=" + restoreUpper(o.Expr)
	}
	return fmt.Sprintf("other%d", o.Tp)
}

func attrDump(dialect string, a element.SqlAttr) string {
	typ := "~"
	switch {
	case dialect == "postgres" && a.PgType != nil:
		typ = a.PgType.SQLString()
	case dialect == "sqlite3" && a.LiteType != nil:
		typ = a.LiteType.Name.Name
	case a.MysqlType != nil:
		typ = a.MysqlType.String()
	}
	opts := make([]string, len(a.Options))
	for i := range a.Options {
		opts[i] = optDump(a.Options[i])
	}
	return "typ=" + typ + " opts=[" + strings.Join(opts, ";") + "] comment=" + a.Comment
}

func posDump(p *ast.ColumnPosition) string {
	if p == nil {
		return "none"
	}
	switch p.Tp {
	case ast.ColumnPositionFirst:
		return "first"
	case ast.ColumnPositionAfter:
		return "after:" + p.RelativeColumn.Name.O
	}
	return "none"
}

func stateDump(dialect string, m *element.Migration) string {
	mv := reflect.ValueOf(m).Elem()
	lines := []string{"cursor=" + unexported(mv, "currentTable").String()}
	for i := range m.Tables {
		t := &m.Tables[i]
		tv := reflect.ValueOf(t).Elem()
		pos := unexported(tv, "columnPosition").Interface().(*ast.ColumnPosition)
		lines = append(lines, fmt.Sprintf("T %s old=%s act=%d pos=%s", t.Name, t.OldName, t.Action, posDump(pos)))
		for _, c := range t.Columns {
			lines = append(lines, fmt.Sprintf(" C %s old=%s act=%d %s prev:%s", c.Name, c.OldName, c.Action,
				attrDump(dialect, c.CurrentAttr), attrDump(dialect, c.PreviousAttr)))
		}
		lines = append(lines, " CI "+mapDump(unexported(tv, "columnIndexes").Interface().(map[string]int)))
		for ixi, ix := range t.Indexes {
			prev := "~"
			if pv := reflect.ValueOf(&t.Indexes[ixi]).Elem().FieldByName("previous"); pv.IsValid() && !pv.IsNil() {
				p := reflect.NewAt(pv.Type(), unsafe.Pointer(pv.UnsafeAddr())).Elem().Interface().(*element.Index)
				prev = fmt.Sprintf("%s:%d:%s:%v:%s", p.Name, p.Typ, p.IndexType.String(), p.CnsTyp == ast.ConstraintPrimaryKey, strings.Join(p.Columns, ","))
			}
			lines = append(lines, fmt.Sprintf(" I %s old=%s act=%d typ=%d itype=%s pk=%v cols=%s prev=%s", ix.Name, ix.OldName, ix.Action,
				ix.Typ, ix.IndexType.String(), ix.CnsTyp == ast.ConstraintPrimaryKey, strings.Join(ix.Columns, ","), prev))
		}
		lines = append(lines, " II "+mapDump(unexported(tv, "indexIndexes").Interface().(map[string]int)))
		for _, f := range t.ForeignKeys {
			lines = append(lines, fmt.Sprintf(" F %s act=%d table=%s col=%s rt=%s rc=%s", f.Name, f.Action, f.Table, f.Column, f.RefTable, f.RefColumn))
		}
		lines = append(lines, " FI "+mapDump(unexported(tv, "indexForeignKeys").Interface().(map[string]int)))
	}
	lines = append(lines, "TI "+mapDump(unexported(mv, "tableIndexes").Interface().(map[string]int)))
	return strings.Join(lines, "\n")
}

// invCheck reports where a name→position map disagrees with its slice (the Inv of DESIGN 3.3, checked on the Go state)
func invCheck(m *element.Migration) string {
	mv := reflect.ValueOf(m).Elem()
	ti := unexported(mv, "tableIndexes").Interface().(map[string]int)
	if len(ti) != len(m.Tables) {
		return "tableIndexes size"
	}
	for i := range m.Tables {
		if v, ok := ti[m.Tables[i].Name]; !ok || v != i {
			return "tableIndexes[" + m.Tables[i].Name + "]"
		}
		t := &m.Tables[i]
		tv := reflect.ValueOf(t).Elem()
		ci := unexported(tv, "columnIndexes").Interface().(map[string]int)
		if len(ci) != len(t.Columns) {
			return t.Name + ".columnIndexes size"
		}
		for j := range t.Columns {
			if v, ok := ci[t.Columns[j].Name]; !ok || v != j {
				return t.Name + ".columnIndexes[" + t.Columns[j].Name + "]"
			}
		}
	}
	return ""
}
