package main

import (
	"encoding/json"
	"fmt"
)

// Suite export (C14, C15): schemas with several foreign keys between the same and different tables, comments, enum
// columns, reserved-word names, the full MySQL type list with and without defaults; all kinds of table selections.

func init() { suites["export"] = suiteExport }

var avroTypes = []string{"tinyint(4)", "tinyint(1)", "smallint(6)", "int(11)", "bigint(20)", "decimal(10,2)", "decimal(12,4)", "decimal(5,3)", "decimal(12,0)", "decimal(20,0)", "float", "double", "date", "datetime",
	"timestamp", "json", "enum('a','b')", "char(3)", "varchar(64)", "text", "longtext"}

func suiteExport(c *ctx) {
	n := 400
	if c.tier == "thorough" {
		n = 4000
	}
	if c.n > 0 {
		n = c.n
	}
	emit := func(id string, cfg runCfg, ss []Stmt, need []string) {
		s := cfg.newSqlize()
		load(s, cfg, sqlStyle{dialect: cfg.dialect}, ss)
		erd := guard(func() string { return s.MermaidJsErd(need...) })
		live := guard(func() string { return s.MermaidJsLive(need...) })
		var avro []string
		r := guard(func() string { avro = s.ArvoSchema(need...); return "" })
		if r != "" {
			avro = []string{r}
		}
		for _, doc := range avro { // every document must be well-formed JSON (checked with encoding/json, independent of the model)
			var v interface{}
			if err := json.Unmarshal([]byte(doc), &v); err != nil && r == "" {
				avro = []string{"invalid-json:" + err.Error()}
				break
			}
		}
		c.emit(id, "export", cfg.sexp(), stmtsSexp(ss), qs(need), q(erd), q(live), qs(avro))
		c.nontrivial(cfg.sexp() + stmtsSexp(ss) + fmt.Sprint(need))
	}
	// the full MySQL type list, with and without a default
	{
		var cols []ColDef
		for i, t := range avroTypes {
			cols = append(cols, ColDef{Name: fmt.Sprintf("c%d", i), Typ: t})
			d := Opt{Kind: "default", DTag: "null"}
			cols = append(cols, ColDef{Name: fmt.Sprintf("d%d", i), Typ: t, Opts: []Opt{d}})
		}
		for _, d := range []string{"mysql", "postgres", "sqlite3"} {
			ss := []Stmt{tbl("alltypes", cols...)}
			if d != "mysql" {
				ss = []Stmt{tbl("t", col("a", typesOf(d)[0]))}
			}
			emit("types-"+d, runCfg{dialect: d}, ss, nil)
		}
	}
	// several foreign keys between the same tables
	{
		ss := []Stmt{tbl("users", col("id", "int(11)", oNotNull, oPk)), tbl("orders", col("id", "int(11)", oNotNull, oPk), col("buyer", "int(11)"), col("seller", "int(11)"), col("self", "int(11)")),
			fk("orders", "fk_buyer", "buyer", "users", "id"), fk("orders", "fk_seller", "seller", "users", "id"), fk("orders", "fk_self", "self", "orders", "id")}
		emit("w-F17-two-fks-same-tables", runCfg{dialect: "mysql"}, ss, nil)
		// C14-a / C14-c: two tables referencing the same table, all selected / each one alone
		ss4 := []Stmt{tbl("users", col("id", "int(11)", oNotNull, oPk)), tbl("orders", col("id", "int(11)", oNotNull, oPk), col("user_id", "int(11)")),
			tbl("reviews", col("id", "int(11)", oNotNull, oPk), col("author_id", "int(11)")),
			fk("orders", "fk_users_orders", "user_id", "users", "id"), fk("reviews", "fk_users_reviews", "author_id", "users", "id")}
		emit("w-two-tables-one-target", runCfg{dialect: "mysql"}, ss4, nil)
		emit("w-two-tables-one-target-selected", runCfg{dialect: "mysql", lower: true}, ss4, []string{"reviews", "orders"})
		// C14-g: two (table, referenced table) pairs whose names concatenate to the same text
		ss5 := []Stmt{tbl("status", col("id", "int(11)", oNotNull, oPk)), tbl("item_status", col("id", "int(11)", oNotNull, oPk)),
			tbl("order", col("id", "int(11)", oNotNull, oPk), col("item_status_id", "int(11)")),
			tbl("order_item", col("id", "int(11)", oNotNull, oPk), col("status_id", "int(11)")),
			fk("order", "fk_item_status_order", "item_status_id", "item_status", "id"), fk("order_item", "fk_status_order_item", "status_id", "status", "id")}
		emit("w-colliding-relation-names", runCfg{dialect: "mysql"}, ss5, nil)
		// C14-i: three keys of one table, two of them to the same table with another one in between
		ss6 := []Stmt{tbl("customer", col("id", "int(11)", oNotNull, oPk)), tbl("warehouse", col("id", "int(11)", oNotNull, oPk)),
			tbl("shipment", col("id", "int(11)", oNotNull, oPk), col("sender_id", "int(11)"), col("depot_id", "int(11)"), col("recipient_id", "int(11)")),
			fk("shipment", "fk_sender", "sender_id", "customer", "id"), fk("shipment", "fk_depot", "depot_id", "warehouse", "id"),
			fk("shipment", "fk_recipient", "recipient_id", "customer", "id")}
		emit("w-two-keys-one-target-interleaved", runCfg{dialect: "mysql"}, ss6, nil)
		// a key created and dropped again
		ss2 := append(append([]Stmt{}, ss...), Stmt{Kind: "dropFk", T: "orders", A: "fk_buyer"}, Stmt{Kind: "dropFk", T: "orders", A: "fk_seller"})
		emit("w-F27-dropped-fk-mark", runCfg{dialect: "mysql"}, ss2, nil)
		// dropped column / table
		ss3 := []Stmt{tbl("t", col("a", "int(11)"), col("b", "int(11)", Opt{Kind: "comment", Val: "the b"})), tbl("x", col("a", "int(11)")), {Kind: "dropColumn", T: "t", A: "a"}, {Kind: "dropTable", T: "x"}}
		emit("w-F17-dropped-elements", runCfg{dialect: "mysql"}, ss3, nil)
		// comments with double quotes: at both ends, in the middle, a single one (seeded change C14-q)
		ss7 := []Stmt{tbl("notes", col("id", "int(11)", oPk), col("a", "text", Opt{Kind: "comment", Val: "\"legacy\""}),
			col("b", "text", Opt{Kind: "comment", Val: "\"on\" or \"off\""}), col("c", "text", Opt{Kind: "comment", Val: "say \"hi\" twice"}),
			col("d", "text", Opt{Kind: "comment", Val: "\""}))}
		emit("w-comments-with-double-quotes", runCfg{dialect: "mysql"}, ss7, nil)
	}
	for i := 0; i < n; i++ {
		dialect := []string{"mysql", "mysql", "mysql", "mysql", "postgres", "sqlite3"}[c.rng.Intn(6)]
		if c.dialect != "" {
			dialect = c.dialect
		}
		cfg := runCfg{dialect: dialect, lower: c.rng.Intn(2) == 0}
		g := &gen{rng: c.rng, dialect: dialect, noDefaults: dialect == "sqlite3"}
		s := g.schema(schemaOpts{maxTables: 1 + c.rng.Intn(4), maxCols: 1 + c.rng.Intn(5), indexes: c.rng.Intn(2) == 0, fks: true})
		// more foreign keys
		for k := 0; k < 2; k++ {
			if len(s.Tables) > 1 {
				t := s.Tables[c.rng.Intn(len(s.Tables))]
				if fk, ok := g.newFk(s, t); ok {
					t.Fks = append(t.Fks, fk)
				}
			}
		}
		ss := s.scriptGrouped()
		var need []string
		switch c.rng.Intn(4) {
		case 1: // a subset in schema order
			for _, t := range s.Tables {
				if c.rng.Intn(2) == 0 {
					need = append(need, t.Name)
				}
			}
			c.count("selection_subset")
		case 2: // any order, duplicates, unknown names
			for _, t := range s.Tables {
				if c.rng.Intn(2) == 0 {
					need = append([]string{t.Name}, need...)
				}
			}
			need = append(need, "no_such_table")
			if len(s.Tables) > 0 {
				need = append(need, s.Tables[0].Name)
			}
			c.count("selection_unknown_and_reordered")
		case 3:
			need = []string{"no_such_table"}
			c.count("selection_only_unknown")
		default:
			c.count("selection_all")
		}
		c.count("dialect_" + dialect)
		emit(fmt.Sprintf("e%d", i), cfg, ss, need)
	}
}
