package main

import (
	"fmt"
)

// Suite hash (C07): for a schema S, several presentations of S must give one HashValue, and every single-element edit
// of S (column renamed / retyped, index added / dropped / redefined, column moved to another table) a different one.

func init() { suites["hash"] = suiteHash }

func hashOf(cfg runCfg, st sqlStyle, calls [][]Stmt) string {
	s := cfg.newSqlize()
	if r := loadCalls(s, st, calls); r != "ok" {
		return r
	}
	return guard(func() string { return fmt.Sprint(s.HashValue()) })
}

func perStmt(ss []Stmt) [][]Stmt {
	out := make([][]Stmt, len(ss))
	for i := range ss {
		out[i] = []Stmt{ss[i]}
	}
	return out
}

func suiteHash(c *ctx) {
	n := 600
	if c.tier == "thorough" {
		n = 5000
	}
	if c.n > 0 {
		n = c.n
	}
	// the empty schema
	for _, d := range []string{"mysql", "postgres", "sqlite3"} {
		cfg := runCfg{dialect: d}
		c.emit("empty-"+d, "hash", cfg.sexp(), L(), L(L("pres", q("empty"), L(), q(hashOf(cfg, sqlStyle{dialect: d}, nil)))), L())
	}
	for i := 0; i < n; i++ {
		dialect := []string{"mysql", "mysql", "mysql", "postgres", "sqlite3"}[c.rng.Intn(5)]
		if i == 0 || i == 1 {
			dialect = "mysql" // the first two cases are fixed below (C07-a: two indexes on one table, so that "permuted-indexes" differs)
		}
		if c.dialect != "" {
			dialect = c.dialect
		}
		cfg := runCfg{dialect: dialect, lower: c.rng.Intn(2) == 0}
		g := &gen{rng: c.rng, dialect: dialect}
		var s *gSchema
		for s == nil || len(s.Tables) == 0 {
			s = g.schema(schemaOpts{maxTables: 1 + c.rng.Intn(3), maxCols: 1 + c.rng.Intn(5), indexes: true, fks: false})
		}
		if i == 0 && c.dialect == "" {
			s = &gSchema{Tables: []*gTable{{Name: "t", Cols: []ColDef{{Name: "id", Typ: "int(11)", Opts: []Opt{{Kind: "notnull"}, {Kind: "pk"}}}, {Name: "a", Typ: "int(11)"}, {Name: "userName", Typ: "varchar(64)"}, {Name: "c", Typ: "int(11)"}},
				Idx: []gIndex{{Name: "i1", Cols: []string{"a"}}, {Name: "i2", Cols: []string{"userName", "c"}, Unique: true}}}, // a mixed-case column under an index (seeded change C07-e)
				{Name: "u", Cols: []ColDef{{Name: "x", Typ: "int(11)"}, {Name: "y", Typ: "decimal(10,2)"}}}}}
		}
		if i == 1 && c.dialect == "" && dialect == "mysql" {
			// the second case is fixed too (C07-r): a composite key declared at table level and a composite index, whose
			// column orders are part of the schema
			s = &gSchema{Tables: []*gTable{{Name: "m", Cols: []ColDef{{Name: "tenant_id", Typ: "int(11)", Opts: []Opt{{Kind: "notnull"}}}, {Name: "id", Typ: "int(11)", Opts: []Opt{{Kind: "notnull"}}}, {Name: "a", Typ: "int(11)"}, {Name: "b", Typ: "int(11)"}},
				Pk: []string{"tenant_id", "id"}, Idx: []gIndex{{Name: "i_ab", Cols: []string{"a", "b"}}}}}}
		}
		base := s.scriptGrouped()
		whole := func(ss []Stmt) [][]Stmt {
			if dialect == "sqlite3" {
				return perStmt(ss)
			}
			return [][]Stmt{ss}
		}
		var pres []string
		addPres := func(kind string, ss []Stmt, calls [][]Stmt, st sqlStyle) {
			pres = append(pres, L("pres", q(kind), stmtsSexp(ss), q(hashOf(cfg, st, calls))))
			c.count("pres_" + kind)
		}
		plain := sqlStyle{dialect: dialect}
		addPres("canonical", base, whole(base), plain)
		addPres("per-statement", base, perStmt(base), plain)
		addPres("alias-spelling", base, whole(base), sqlStyle{dialect: dialect, rng: c.rng})
		// other keyword-case option
		{
			fc := cfg
			fc.lower = !cfg.lower
			pres = append(pres, L("pres", q("case-option"), stmtsSexp(base), q(hashOf(fc, plain, whole(base)))))
			c.count("pres_case-option")
		}
		// permuted columns inside each table (indexes keep their column lists)
		{
			p := s.clone()
			for _, t := range p.Tables {
				g.rng.Shuffle(len(t.Cols), func(a, b int) { t.Cols[a], t.Cols[b] = t.Cols[b], t.Cols[a] })
			}
			ps := p.scriptGrouped()
			addPres("permuted-columns", ps, whole(ps), plain)
		}
		// indexes declared in another order (same set)
		{
			p := s.clone()
			for _, t := range p.Tables {
				g.rng.Shuffle(len(t.Idx), func(a, b int) { t.Idx[a], t.Idx[b] = t.Idx[b], t.Idx[a] })
			}
			ps := p.scriptGrouped()
			addPres("permuted-indexes", ps, whole(ps), plain)
		}
		// a single-column primary key written as a table-level constraint (MySQL)
		if dialect == "mysql" {
			if tp, ok := tableLevelPk(base); ok {
				pres = append(pres, L("pres", q("table-level-pk"), stmtsSexp(base), q(hashOf(cfg, plain, whole(tp)))))
				c.count("pres_table-level-pk")
			}
		}
		// the default index type spelled out (MySQL)
		if dialect == "mysql" {
			eb := append([]Stmt{}, base...)
			for k := range eb {
				if eb[k].Kind == "createIndex" && eb[k].Using == "" {
					eb[k].Using = "BTREE"
				}
			}
			pres = append(pres, L("pres", q("explicit-using-btree"), stmtsSexp(eb), q(hashOf(cfg, plain, whole(eb)))))
			c.count("pres_explicit-using-btree")
		}
		// the same indexes written as inline KEY / UNIQUE KEY of CREATE TABLE (MySQL)
		if dialect == "mysql" {
			z := cfg.newSqlize()
			h := guard(func() string {
				if err := z.FromString(plain.scriptInlineKeys(base)); err != nil {
					return "error:" + firstLine(err.Error())
				}
				return fmt.Sprint(z.HashValue())
			})
			pres = append(pres, L("pres", q("inline-keys"), stmtsSexp(base), q(h)))
			c.count("pres_inline-keys")
		}
		// Postgres: a column created with another type and brought to its type by ALTER COLUMN … TYPE, then given a default
		// and relieved of NOT NULL (neither is part of the fingerprint): the same live columns by another route
		if dialect == "postgres" {
			p := s.clone()
			t := p.Tables[c.rng.Intn(len(p.Tables))]
			ci := c.rng.Intn(len(t.Cols))
			want := t.Cols[ci].Typ
			nt := g.typ()
			for nt == want {
				nt = g.typ()
			}
			t.Cols[ci].Typ = nt
			ps := p.scriptGrouped()
			ps = append(ps, Stmt{Kind: "alterType", T: t.Name, A: t.Cols[ci].Name, B: want})
			if c.rng.Intn(2) == 0 {
				ps = append(ps, Stmt{Kind: "setDefault", T: t.Name, A: t.Cols[ci].Name, Col: ColDef{Opts: []Opt{{Kind: "default", DTag: "num", Val: "7"}}}})
			}
			if c.rng.Intn(2) == 0 {
				ps = append(ps, Stmt{Kind: "dropNotNull", T: t.Name, A: t.Cols[ci].Name})
			}
			addPres("alter-column", ps, whole(ps), plain)
		}
		// detour: an extra column / index / table is created and dropped again
		{
			d := append([]Stmt{}, base...)
			t := s.Tables[c.rng.Intn(len(s.Tables))]
			extra := ColDef{Name: "zz_detour", Typ: g.typ()}
			d = append(d, Stmt{Kind: "addColumn", T: t.Name, Col: extra, Pos: "none"})
			if dialect == "mysql" {
				d = append(d, Stmt{Kind: "createIndex", T: t.Name, A: "zz_idx", Pk: []string{t.Cols[0].Name}})
				d = append(d, Stmt{Kind: "dropIndex", T: t.Name, A: "zz_idx"})
			}
			d = append(d, Stmt{Kind: "dropColumn", T: t.Name, A: "zz_detour"})
			d = append(d, Stmt{Kind: "createTable", T: "zz_table", Cols: []ColDef{{Name: "id", Typ: g.typ()}}})
			d = append(d, Stmt{Kind: "dropTable", T: "zz_table"})
			addPres("detour", d, whole(d), plain)
		}
		// single-element edits
		var edits []string
		addEdit := func(kind string, e *gSchema) {
			es := e.scriptGrouped()
			edits = append(edits, L("edit", q(kind), stmtsSexp(es), q(hashOf(cfg, plain, whole(es)))))
			c.count("edit_" + kind)
		}
		{
			e := s.clone()
			t := e.Tables[c.rng.Intn(len(e.Tables))]
			ci := c.rng.Intn(len(t.Cols))
			old := t.Cols[ci].Name
			nn := old + "_r"
			t.Cols[ci].Name = nn
			for k := range t.Idx {
				for j := range t.Idx[k].Cols {
					if t.Idx[k].Cols[j] == old {
						t.Idx[k].Cols[j] = nn
					}
				}
			}
			addEdit("rename-column", e)
		}
		{
			e := s.clone()
			t := e.Tables[c.rng.Intn(len(e.Tables))]
			ci := c.rng.Intn(len(t.Cols))
			nt := g.typ()
			for nt == t.Cols[ci].Typ {
				nt = g.typ()
			}
			t.Cols[ci].Typ = nt
			t.Cols[ci].Opts = nil
			addEdit("retype-column", e)
		}
		{ // the same base type with other parameters
			e := s.clone()
			done := false
			for _, t := range e.Tables {
				for ci := range t.Cols {
					if sib, ok := typeSibling[t.Cols[ci].Typ]; ok && !done {
						t.Cols[ci].Typ = sib
						done = true
					}
				}
			}
			if done {
				addEdit("retype-parameters", e)
			}
		}
		if dialect == "mysql" { // the same base type and size with a type attribute (seeded change C07-i)
			e := s.clone()
			done := false
			for _, t := range e.Tables {
				for ci := range t.Cols {
					switch t.Cols[ci].Typ {
					case "int(11)", "bigint(20)", "smallint(6)", "tinyint(4)":
						if !done && len(t.Cols[ci].Opts) == 0 {
							t.Cols[ci].Typ += " UNSIGNED" // as FieldType.String() prints it
							done = true
						}
					}
				}
			}
			if done {
				addEdit("retype-unsigned", e)
			}
		}
		{
			e := s.clone()
			t := e.Tables[c.rng.Intn(len(e.Tables))]
			if ix, ok := g.newIndex(t); ok {
				t.Idx = append(t.Idx, ix)
				addEdit("add-index", e)
			}
		}
		for _, t0 := range s.Tables {
			if len(t0.Idx) > 0 {
				e := s.clone()
				t := e.table(t0.Name)
				t.Idx = t.Idx[1:]
				addEdit("drop-index", e)
				e2 := s.clone()
				t2 := e2.table(t0.Name)
				t2.Idx[0].Unique = !t2.Idx[0].Unique
				addEdit("redefine-index-unique", e2)
				if len(t0.Cols) > 1 {
					e3 := s.clone()
					t3 := e3.table(t0.Name)
					other := ""
					for _, cc := range t3.Cols {
						if cc.Name != t3.Idx[0].Cols[0] && cc.Typ != "text" && cc.Typ != "longtext" && cc.Typ != "json" && cc.Typ != "BLOB" {
							other = cc.Name
						}
					}
					if other != "" {
						in := false
						for _, x := range t3.Idx[0].Cols {
							if x == other {
								in = true
							}
						}
						if !in {
							t3.Idx[0].Cols = []string{other}
							addEdit("redefine-index-columns", e3)
						}
					}
				}
				break
			}
		}
		if len(s.Tables) > 1 && len(s.Tables[0].Cols) > 1 {
			e := s.clone()
			src, dst := e.Tables[0], e.Tables[1]
			mv := src.Cols[len(src.Cols)-1]
			indexed := false
			for _, ix := range src.Idx {
				for _, x := range ix.Cols {
					if x == mv.Name {
						indexed = true
					}
				}
			}
			if dst.colIndex(mv.Name) < 0 && !indexed {
				src.Cols = src.Cols[:len(src.Cols)-1]
				dst.Cols = append(dst.Cols, mv)
				addEdit("move-column", e)
			}
		}
		// the order of the columns of a composite key or index is part of the schema
		for _, t0 := range s.Tables {
			if len(t0.Pk) >= 2 {
				e := s.clone()
				t := e.table(t0.Name)
				for a, b := 0, len(t.Pk)-1; a < b; a, b = a+1, b-1 {
					t.Pk[a], t.Pk[b] = t.Pk[b], t.Pk[a]
				}
				addEdit("reorder-key-columns", e)
			}
			for k := range t0.Idx {
				if len(t0.Idx[k].Cols) >= 2 {
					e := s.clone()
					t := e.table(t0.Name)
					cs := append([]string{}, t.Idx[k].Cols...)
					for a, b := 0, len(cs)-1; a < b; a, b = a+1, b-1 {
						cs[a], cs[b] = cs[b], cs[a]
					}
					t.Idx[k].Cols = cs
					addEdit("reorder-index-columns", e)
					break
				}
			}
		}
		c.count("dialect_" + dialect)
		c.emit(fmt.Sprintf("h%d", i), "hash", cfg.sexp(), stmtsSexp(base), L(pres...), L(edits...))
		c.nontrivial(cfg.sexp() + stmtsSexp(base))
	}
}
