package main

import (
	"fmt"
	"os"
	"path/filepath"
	"regexp"
	"sort"
	"strings"
	"time"

	"github.com/sunary/sqlize"
	"github.com/sunary/sqlize/utils"
)

// Suite files (C11): WriteFiles / WriteFilesVersion / WriteFilesWithVersion and FromMigrationFolder in a scratch
// directory: all name classes, suffix configurations, foreign files, sequences of writes, missing / unwritable folders.

func init() { suites["files"] = suiteFiles }

func listDir(dir string) string {
	var out []string
	filepath.Walk(dir, func(p string, info os.FileInfo, err error) error {
		if err != nil || p == dir {
			return nil
		}
		rel, _ := filepath.Rel(dir, p)
		if info.IsDir() {
			out = append(out, L("dir", q(rel)))
			return nil
		}
		b, _ := os.ReadFile(p)
		out = append(out, L("file", q(rel), q(string(b))))
		return nil
	})
	sort.Strings(out)
	return L(out...)
}

var createTableRe = regexp.MustCompile("CREATE TABLE `([a-z]+)`")

func suiteFiles(c *ctx) {
	root := filepath.Join(os.Getenv("VERIF_WORK"), fmt.Sprintf("files-%d", os.Getpid()))
	if os.Getenv("VERIF_WORK") == "" {
		root = filepath.Join(os.TempDir(), fmt.Sprintf("verif-files-%d", os.Getpid()))
	}
	os.RemoveAll(root)
	defer os.RemoveAll(root)

	names := []string{"add users", "Add-User_ID  column", "a\tb\nc", "../../etc/passwd", "v1.2.3", "Ünïcode ñame 数据", "  lead and trail  ", "UPPER",
		"a/b\\c", "x\x00y\x7f", "", "___", "1234", "tab\there", "dots...and;semi:colons", "many     blanks", "cr\rlf\n"}
	suffixes := [][2]string{{".up.sql", ".down.sql"}, {".sql", ""}, {".sql", ".sql"}, {"_up.sql", "_down.sql"}, {".up.test", ".down.test"},
		// distinct suffixes where one ends with the other, and an empty up suffix
		{".sql", ".down.sql"}, {".up.sql", ".sql"}, {"", ".down"}, {"sql", ".sql"},
		// suffixes with capital letters are matched as written (seeded change C11-q)
		{".Up.sql", ".Down.sql"}}
	simple := []Stmt{tbl("t", col("a", "int(11)"), col("b", "int(11)"))}
	id := 0
	mode := []string{"plain", "version", "withversion", "emptyboth", "onlyup", "emptydown"}
	for ni, name := range names {
		for si, sf := range suffixes {
			m := mode[(ni+si)%len(mode)]
			dir := filepath.Join(root, fmt.Sprintf("w%d", id))
			os.MkdirAll(dir, 0755)
			// foreign content that must be left alone
			os.WriteFile(filepath.Join(dir, "README.txt"), []byte("keep me"), 0644)
			os.MkdirAll(filepath.Join(dir, "sub"), 0755)
			s := sqlize.NewSqlize(sqlize.WithMigrationFolder(dir), sqlize.WithMigrationSuffix(sf[0], sf[1]))
			old := sqlize.NewSqlize()
			upText, downText := "", ""
			var err error
			t0 := time.Now()
			switch m {
			case "plain":
				s.FromString((sqlStyle{dialect: "mysql"}).script(simple))
				s.Diff(*old)
				upText, downText = s.StringUp(), s.StringDown()
				err = s.WriteFiles(name)
			case "version":
				upText, downText = s.StringUpWithVersion(7, false), s.StringDownWithVersion(7)
				upText, downText = strings.TrimPrefix(upText, "\n"), strings.TrimPrefix(downText, "\n")
				err = s.WriteFilesVersion(name, 7, false)
			case "withversion":
				s.FromString((sqlStyle{dialect: "mysql"}).script(simple))
				s.Diff(*old)
				upText = s.StringUp() + "\n\n" + strings.TrimPrefix(sqlize.NewSqlize().StringUpWithVersion(7, true), "\n")
				downText = s.StringDown() + "\n\n" + strings.TrimPrefix(sqlize.NewSqlize().StringDownWithVersion(7), "\n")
				err = s.WriteFilesWithVersion(name, 7, true)
			case "emptydown":
				// up has text, down has none (seeded change C11-i): SQLite adds a column and has no statement to drop it
				s = sqlize.NewSqlize(sqlize.WithSqlite(), sqlize.WithMigrationFolder(dir), sqlize.WithMigrationSuffix(sf[0], sf[1]))
				oldL := sqlize.NewSqlize(sqlize.WithSqlite())
				s.FromString("CREATE TABLE t (a INTEGER, b INTEGER);")
				oldL.FromString("CREATE TABLE t (a INTEGER);")
				s.Diff(*oldL)
				upText, downText = s.StringUp(), s.StringDown()
				if downText == "" && upText != "" {
					c.count("up_with_empty_down")
				}
				err = s.WriteFiles(name)
			case "emptyboth":
				err = s.WriteFiles(name)
			case "onlyup":
				// up non-empty, down empty: diff an index-only change? use a new table against itself plus nothing: emulate with version 0 strings
				s.FromString((sqlStyle{dialect: "mysql"}).script(simple))
				upText, downText = s.StringUp(), ""
				s2 := sqlize.NewSqlize(sqlize.WithMigrationFolder(dir), sqlize.WithMigrationSuffix(sf[0], sf[1]))
				s2.FromString((sqlStyle{dialect: "mysql"}).script(simple))
				// StringDown of an un-diffed loaded model is DROP TABLE; keep the case simple: treat as plain
				downText = s2.StringDown()
				err = s.WriteFiles(name)
			}
			t1 := time.Now()
			es := "ok"
			if err != nil {
				es = "error"
			}
			c.emit(fmt.Sprintf("f%d", id), "files", q(name), q(sf[0]), q(sf[1]), q(upText), q(downText), q(es),
				q(t0.Format("20060102150405")), q(t1.Format("20060102150405")), listDir(dir), L(L("file", q("README.txt"), q("keep me")), L("dir", q("sub"))))
			c.nontrivial(fmt.Sprint(name, sf, m))
			c.count("mode_" + m)
			id++
		}
	}
	// reading: folders with foreign files, hidden files, sub-directories, down files
	for ri, sf := range suffixes {
		dir := filepath.Join(root, fmt.Sprintf("r%d", ri))
		os.MkdirAll(filepath.Join(dir, "sub"+sf[0]+"x"), 0755)
		os.MkdirAll(filepath.Join(dir, "archive"+sf[0]), 0755) // a directory is not a migration file, whatever its name ends with
		entries := map[string]string{
			"20200101000000_b" + sf[0]: "B", "20190101000000_a" + sf[0]: "A", "20210101000000_c" + sf[0]: "C",
			".hidden" + sf[0]: "H", "notes.txt": "N", "20200101000000_b" + sf[1] + ".bak": "K", "zz" + sf[0] + ".orig": "O",
		}
		// a foreign file whose name ends with the suffix in another letter case is not a migration file (C11-q)
		if up := strings.ToUpper(sf[0]); up != sf[0] {
			entries["00_LEGACY_EXPORT"+up] = "U"
		}
		if sf[1] != "" && sf[1] != sf[0] {
			entries["20200101000000_b"+sf[1]] = "D"
		}
		var ent []string
		for k, v := range entries {
			os.WriteFile(filepath.Join(dir, k), []byte(v), 0644)
		}
		des, _ := os.ReadDir(dir)
		for _, de := range des {
			if !de.IsDir() {
				ent = append(ent, L(q(de.Name()), q(entries[de.Name()])))
			}
		}
		got, err := utils.ReadPath(dir, sf[0])
		es := "ok"
		if err != nil {
			es = "error"
		}
		c.emit(fmt.Sprintf("rd%d", ri), "filesread", q(sf[0]), L(ent...), qs(got), q(es))
		c.count("read_cases")
	}
	// the same through the public entry point with *both* suffixes configured: FromMigrationFolder loads exactly the files
	// ReadPath names, whatever the down suffix is (seeded change C11-g: files that also end with the down suffix were skipped).
	// Every file declares one table named after it; the tables loaded, in order, are the observation.
	for ri, sf := range suffixes {
		dir := filepath.Join(root, fmt.Sprintf("l%d", ri))
		os.MkdirAll(filepath.Join(dir, "archive"+sf[0]), 0755)
		entries := map[string]string{
			"20200101000000_b" + sf[0]: "xb", "20190101000000_a" + sf[0]: "xa", "20210101000000_c" + sf[0]: "xc",
			".hidden" + sf[0]: "xh", "notes.txt": "xn", "20200101000000_b" + sf[1] + ".bak": "xk", "zz" + sf[0] + ".orig": "xo",
		}
		if sf[1] != "" && sf[1] != sf[0] {
			entries["20200101000000_b"+sf[1]] = "xd"
		}
		for k, v := range entries {
			os.WriteFile(filepath.Join(dir, k), []byte("CREATE TABLE "+v+" (a int);"), 0644)
		}
		var ent []string
		des, _ := os.ReadDir(dir)
		for _, de := range des {
			if !de.IsDir() {
				ent = append(ent, L(q(de.Name()), q(entries[de.Name()])))
			}
		}
		s := sqlize.NewSqlize(sqlize.WithMigrationFolder(dir), sqlize.WithMigrationSuffix(sf[0], sf[1]))
		es := guard(func() string {
			if err := s.FromMigrationFolder(); err != nil {
				return "error"
			}
			return "ok"
		})
		var got []string
		for _, m := range createTableRe.FindAllStringSubmatch(guard(func() string { return s.StringUp() }), -1) {
			got = append(got, m[1])
		}
		c.emit(fmt.Sprintf("ld%d", ri), "filesread", q(sf[0]), L(ent...), qs(got), q(es))
		c.count("read_cases")
	}
	// missing folder => error; load must fail, not panic
	{
		s := sqlize.NewSqlize(sqlize.WithMigrationFolder(filepath.Join(root, "does-not-exist")))
		r := guard(func() string {
			if err := s.FromMigrationFolder(); err != nil {
				return "error"
			}
			return "ok"
		})
		c.emit("missing", "filesmisc", q("missing-folder-read"), q(r), q("error"))
		r2 := guard(func() string {
			s.FromString("CREATE TABLE t (a int);")
			if err := s.WriteFiles("x"); err != nil {
				return "error"
			}
			return "ok"
		})
		c.emit("missing-write", "filesmisc", q("missing-folder-write"), q(r2), q("error"))
	}
	// the same migration name written twice in quick succession, the second text shorter than the first: whatever files
	// exist afterwards must hold exactly header + one of the two texts (a later write replaces, never splices)
	for k := 0; k < 3; k++ {
		dir := filepath.Join(root, fmt.Sprintf("over%d", k))
		os.MkdirAll(dir, 0755)
		long := sqlize.NewSqlize(sqlize.WithMigrationFolder(dir))
		long.FromString("CREATE TABLE a_long_table_name (id int, name varchar(64), created_at datetime); CREATE INDEX idx_name ON a_long_table_name(name);")
		short := sqlize.NewSqlize(sqlize.WithMigrationFolder(dir))
		short.FromString("CREATE TABLE t (a int);")
		t1, t2 := long.StringUp(), short.StringUp()
		d1, d2 := long.StringDown(), short.StringDown()
		long.WriteFiles("same name")
		short.WriteFiles("same name")
		c.emit(fmt.Sprintf("over%d", k), "filesover", qs([]string{t1, t2, d1, d2}), listDir(dir))
		c.count("overwrite_cases")
		time.Sleep(350 * time.Millisecond)
	}
	// two writes within the same second whose names sort against the write order (recorded finding)
	{
		dir := filepath.Join(root, "fast")
		os.MkdirAll(dir, 0755)
		var written []string
		for i, nm := range []string{"zz first", "aa second"} {
			m := sqlize.NewSqlize(sqlize.WithMigrationFolder(dir))
			m.FromString(fmt.Sprintf("CREATE TABLE t%d (a int);", i))
			written = append(written, "/* generate by sqlize */\n\n"+m.StringUp())
			m.WriteFiles(nm)
		}
		got, _ := utils.ReadPath(dir, ".up.sql")
		c.emit("seq-same-second", "filesseqfast", qs(written), qs(got), q(""), q(""))
	}
	// sequences of writes, one second apart: reload order = write order, and the reloaded schema is the built one
	seqs := 1
	if c.tier == "thorough" {
		seqs = 3
	}
	for k := 0; k < seqs; k++ {
		dir := filepath.Join(root, fmt.Sprintf("seq%d", k))
		os.MkdirAll(dir, 0755)
		hist := sqlize.NewSqlize(sqlize.WithMigrationFolder(dir))
		steps := [][]Stmt{
			{tbl("zeta", col("a", "int(11)"))},
			{tbl("zeta", col("a", "int(11)"), col("b", "int(11)"))},
			{tbl("zeta", col("a", "int(11)"), col("b", "int(11)")), tbl("alpha", col("x", "int(11)"))},
		}
		names := []string{"zz last name", "mm middle", "aa first name"} // names sort against write order
		var written []string
		for i, st := range steps {
			models := sqlize.NewSqlize(sqlize.WithMigrationFolder(dir))
			models.FromString((sqlStyle{dialect: "mysql"}).script(st))
			h := sqlize.NewSqlize(sqlize.WithMigrationFolder(dir))
			h.FromMigrationFolder()
			models.Diff(*h)
			written = append(written, "/* generate by sqlize */\n\n"+models.StringUp())
			models.WriteFiles(names[i])
			time.Sleep(1050 * time.Millisecond)
		}
		got, _ := utils.ReadPath(dir, ".up.sql")
		hist.FromMigrationFolder()
		final := sqlize.NewSqlize()
		final.FromString((sqlStyle{dialect: "mysql"}).script(steps[len(steps)-1]))
		final.Diff(*hist)
		c.emit(fmt.Sprintf("seq%d", k), "filesseq", qs(written), qs(got), q(final.StringUp()), q(final.StringDown()))
		c.count("write_sequences")
	}
}
