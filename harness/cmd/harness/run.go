package main

import (
	"bufio"
	"crypto/md5"
	"encoding/json"
	"flag"
	"fmt"
	"math/rand"
	"os"
	"runtime/debug"
	"sort"
	"strings"
)

// ctx is what every suite gets: one PRNG (all random choices derive from -seed), the case writer and counters.
type ctx struct {
	seed    int64
	tier    string
	n       int
	rng     *rand.Rand
	w       *bufio.Writer
	nCases  int
	counts  map[string]int
	samples []string
	only    string // replay: only emit the case with this id
	dialect string // restrict generated cases to one dialect ("" = mix)
	nontriv map[[16]byte]struct{}
}

// nontrivial records one distinct non-trivial case (by a key describing its canonical input).
func (c *ctx) nontrivial(key string) {
	c.nontriv[md5.Sum([]byte(key))] = struct{}{}
}

func (c *ctx) count(key string) { c.counts[key]++ }

func (c *ctx) emit(id, suite string, args ...string) {
	if c.only != "" && c.only != id {
		return
	}
	line := L(append([]string{"case", id, suite}, args...)...)
	c.w.WriteString(line)
	c.w.WriteByte('\n')
	c.nCases++
	if len(c.samples) < 5 || (c.nCases%997 == 0 && len(c.samples) < 12) {
		c.samples = append(c.samples, line)
	}
}

type suiteFn func(c *ctx)

var suites = map[string]suiteFn{}

func run(suite string, args []string) {
	fs := flag.NewFlagSet(suite, flag.ExitOnError)
	seed := fs.Int64("seed", 1, "PRNG seed")
	tier := fs.String("tier", "quick", "quick|thorough")
	n := fs.Int("n", 0, "number of generated cases (0 = suite default for the tier)")
	out := fs.String("out", "", "case file (default stdout)")
	stats := fs.String("stats", "", "statistics JSON file")
	only := fs.String("only", "", "emit only the case with this id")
	dialect := fs.String("dialect", "", "restrict to one dialect")
	fs.Parse(args)

	fn, ok := suites[suite]
	if !ok {
		names := []string{}
		for k := range suites {
			names = append(names, k)
		}
		sort.Strings(names)
		fmt.Fprintf(os.Stderr, "unknown suite %q; known: %s\n", suite, strings.Join(names, " "))
		os.Exit(2)
	}

	var f *os.File = os.Stdout
	if *out != "" {
		var err error
		f, err = os.Create(*out)
		if err != nil {
			fmt.Fprintln(os.Stderr, err)
			os.Exit(2)
		}
		defer f.Close()
	}
	c := &ctx{seed: *seed, tier: *tier, n: *n, rng: rand.New(rand.NewSource(*seed)), w: bufio.NewWriterSize(f, 1<<20),
		counts: map[string]int{}, only: *only, dialect: *dialect, nontriv: map[[16]byte]struct{}{}}
	fn(c)
	c.w.Flush()
	c.counts["distinct_nontrivial"] = len(c.nontriv)

	if *stats != "" {
		st := map[string]interface{}{
			"suite": suite, "seed": *seed, "tier": *tier, "cases": c.nCases, "counts": c.counts, "samples": c.samples,
		}
		b, _ := json.MarshalIndent(st, "", " ")
		os.WriteFile(*stats, b, 0644)
	}
}

// guard runs f and maps a panic to "panic:<innermost sqlize frame>".
func guard(f func() string) (res string) {
	defer func() {
		if r := recover(); r != nil {
			res = "panic:" + sqlizeFrame(string(debug.Stack())) + ":" + firstLine(fmt.Sprint(r))
		}
	}()
	return f()
}

func firstLine(s string) string {
	if i := strings.IndexByte(s, '\n'); i >= 0 {
		return s[:i]
	}
	return s
}

func sqlizeFrame(stack string) string {
	lines := strings.Split(stack, "\n")
	for _, l := range lines {
		if strings.HasPrefix(l, "github.com/sunary/sqlize") {
			l = strings.TrimPrefix(l, "github.com/sunary/sqlize")
			if i := strings.IndexByte(l, '('); i > 0 && !strings.Contains(l[:i], "/") || true {
				// keep "pkg.Func" only
				if j := strings.LastIndex(l, "("); j > 0 {
					l = l[:j]
				}
			}
			return strings.TrimPrefix(l, "/")
		}
	}
	return "?"
}
