package main

import (
	"fmt"
	"strings"

	"github.com/sunary/sqlize"
)

// Suite script (C05, feeds C09): well-formed DDL scripts (random walks over the vocabulary sqlize writes and re-reads),
// loaded in one call, one statement per call, and in random splits; a malformed stream for the rejection clause.

func init() { suites["script"] = suiteScript }

// applyStmt keeps the generator's guidance schema in step with a statement (MySQL rules)
func applyStmt(s *gSchema, st Stmt) {
	t := s.table(st.T)
	switch st.Kind {
	case "createTable":
		nt := &gTable{Name: st.T, Pk: append([]string{}, st.Pk...)}
		for _, c := range st.Cols {
			nt.Cols = append(nt.Cols, c)
		}
		s.Tables = append(s.Tables, nt)
	case "dropTable":
		for i := range s.Tables {
			if s.Tables[i].Name == st.T {
				s.Tables = append(s.Tables[:i], s.Tables[i+1:]...)
				break
			}
		}
	case "addColumn":
		switch st.Pos {
		case "first":
			t.Cols = append([]ColDef{st.Col}, t.Cols...)
		case "after":
			i := t.colIndex(st.After)
			t.Cols = append(t.Cols[:i+1], append([]ColDef{st.Col}, t.Cols[i+1:]...)...)
		default:
			t.Cols = append(t.Cols, st.Col)
		}
	case "dropColumn":
		dropColumnFromTable(t, st.A)
	case "modifyColumn":
		i := t.colIndex(st.Col.Name)
		t.Cols[i] = st.Col
	case "alterType":
		t.Cols[t.colIndex(st.A)].Typ = st.B
	case "setDefault", "dropNotNull":
		i := t.colIndex(st.A)
		drop := map[string]string{"setDefault": "default", "dropNotNull": "notnull"}[st.Kind]
		var keep []Opt
		for _, o := range t.Cols[i].Opts {
			if o.Kind != drop {
				keep = append(keep, o)
			}
		}
		if st.Kind == "setDefault" {
			keep = append(keep, st.Col.Opts[0])
		}
		t.Cols[i].Opts = keep
	case "renameColumn":
		i := t.colIndex(st.A)
		t.Cols[i].Name = st.B
		for k := range t.Idx {
			for j := range t.Idx[k].Cols {
				if t.Idx[k].Cols[j] == st.A {
					t.Idx[k].Cols[j] = st.B
				}
			}
		}
		for k := range t.Fks {
			if t.Fks[k].Col == st.A {
				t.Fks[k].Col = st.B
			}
		}
		for k := range t.Pk {
			if t.Pk[k] == st.A {
				t.Pk[k] = st.B
			}
		}
		for _, o := range s.Tables {
			for k := range o.Fks {
				if o.Fks[k].RT == st.T && o.Fks[k].RC == st.A {
					o.Fks[k].RC = st.B
				}
			}
		}
	case "addPk":
		t.Pk = append([]string{}, st.Pk...)
	case "dropPk":
		t.Pk = nil
	case "addFk":
		t.Fks = append(t.Fks, gFk{Name: st.A, Col: st.B, RT: st.RT, RC: st.RC})
	case "dropFk":
		for i := range t.Fks {
			if t.Fks[i].Name == st.A {
				t.Fks = append(t.Fks[:i], t.Fks[i+1:]...)
				break
			}
		}
	case "renameIndex":
		for i := range t.Idx {
			if t.Idx[i].Name == st.A {
				t.Idx[i].Name = st.B
			}
		}
	case "createIndex":
		t.Idx = append(t.Idx, gIndex{Name: st.A, Cols: append([]string{}, st.Pk...), Unique: st.Unique, Using: st.Using})
	case "dropIndex":
		for i := range t.Idx {
			if t.Idx[i].Name == st.A {
				t.Idx = append(t.Idx[:i], t.Idx[i+1:]...)
				break
			}
		}
	}
}

type scriptOpts struct {
	steps                                                       int
	positional, drops, modifies, renames, keys, fks, dropTables bool
	renameIndex, using                                          bool
}

// randomScript: a random walk of well-formed statements starting from the empty schema
func (g *gen) randomScript(o scriptOpts, c *ctx) []Stmt {
	s := &gSchema{}
	var out []Stmt
	emit := func(st Stmt) {
		applyStmt(s, st)
		out = append(out, st)
		c.count("stmt_" + st.Kind)
	}
	for step := 0; step < o.steps; step++ {
		if len(s.Tables) == 0 || (len(s.Tables) < 4 && g.rng.Intn(6) == 0) {
			t := g.newTable(s, 4)
			st := Stmt{Kind: "createTable", T: t.Name, Cols: t.Cols}
			// a key declared as a table constraint inside CREATE TABLE (seeded change C03-p): MySQL, no inline key
			if g.dialect == "mysql" && o.keys && !t.hasPk() && len(t.Cols) > 0 && g.rng.Intn(4) == 0 {
				st.Pk = []string{t.Cols[0].Name}
				c.count("create_table_with_key_constraint")
			}
			emit(st)
			continue
		}
		t := s.Tables[g.rng.Intn(len(s.Tables))]
		k := g.rng.Intn(20)
		if len(t.Cols) == 0 && k >= 5 {
			k = 0 // a table all of whose columns were dropped (postgres): the only statement about columns that applies is ADD COLUMN
		}
		switch {
		case k < 5: // add column
			col := g.newColumn(t)
			st := Stmt{Kind: "addColumn", T: t.Name, Col: col, Pos: "none"}
			if o.positional && len(t.Cols) > 0 {
				switch g.rng.Intn(3) {
				case 0:
					st.Pos = "first"
					c.count("pos_first")
				case 1:
					st.Pos = "after"
					st.After = t.Cols[g.rng.Intn(len(t.Cols))].Name
					if st.After == t.Cols[len(t.Cols)-1].Name {
						c.count("pos_after_last")
					} else {
						c.count("pos_after_middle")
					}
				}
			}
			emit(st)
		case k < 7 && o.drops:
			if len(t.Cols) <= 1 && g.dialect != "postgres" { // postgres accepts a table without columns; mysql and sqlite refuse to drop the last one
				continue
			}
			if len(t.Cols) == 0 {
				continue
			}
			cn := t.Cols[g.rng.Intn(len(t.Cols))].Name
			if s.referenced(t.Name, cn) {
				continue
			}
			emit(Stmt{Kind: "dropColumn", T: t.Name, A: cn})
		case k < 9 && g.dialect == "postgres" && len(t.Cols) > 0:
			// the Postgres spellings of MODIFY COLUMN, one aspect at a time
			cn := t.Cols[g.rng.Intn(len(t.Cols))].Name
			if g.rng.Intn(5) == 0 { // COMMENT ON COLUMN … IS '…' / IS NULL
				emit(Stmt{Kind: "commentOn", T: t.Name, A: cn, B: g.pick([]string{"note", "", "it's", ""})})
				continue
			}
			switch g.rng.Intn(4) {
			case 0:
				emit(Stmt{Kind: "setDefault", T: t.Name, A: cn, Col: ColDef{Opts: []Opt{{Kind: "default", DTag: "num", Val: fmt.Sprint(g.rng.Intn(90))}}}})
			case 1:
				emit(Stmt{Kind: "dropNotNull", T: t.Name, A: cn})
			default:
				emit(Stmt{Kind: "alterType", T: t.Name, A: cn, B: g.typ()})
			}
		case k < 9 && o.modifies:
			i := g.rng.Intn(len(t.Cols))
			old := t.Cols[i]
			if old.Name == "id" || s.referenced(t.Name, old.Name) {
				continue
			}
			nt := g.typ()
			emit(Stmt{Kind: "modifyColumn", T: t.Name, Col: ColDef{Name: old.Name, Typ: nt, Opts: g.opts(nt)}})
		case k < 10 && o.renames:
			i := g.rng.Intn(len(t.Cols))
			nn := g.freshName(g.colNames(), func(n string) bool { return t.colIndex(n) >= 0 }, "col")
			emit(Stmt{Kind: "renameColumn", T: t.Name, A: t.Cols[i].Name, B: nn})
		case k < 12 && o.keys:
			if ix, ok := g.newIndex(t); ok {
				if o.using && g.rng.Intn(3) == 0 {
					ix.Using = []string{"BTREE", "HASH"}[g.rng.Intn(2)]
				}
				emit(Stmt{Kind: "createIndex", T: t.Name, A: ix.Name, Pk: ix.Cols, Unique: ix.Unique, Using: ix.Using})
			}
		case k < 13 && o.keys:
			if len(t.Idx) > 0 {
				emit(Stmt{Kind: "dropIndex", T: t.Name, A: t.Idx[g.rng.Intn(len(t.Idx))].Name})
			}
		case k < 14 && o.keys && o.renameIndex:
			if len(t.Idx) > 0 {
				emit(Stmt{Kind: "renameIndex", T: t.Name, A: t.Idx[g.rng.Intn(len(t.Idx))].Name, B: g.idxName(t) + "r"})
			}
		case k < 15 && o.keys:
			if !t.hasPk() {
				emit(Stmt{Kind: "addPk", T: t.Name, Pk: []string{t.Cols[0].Name}})
			}
		case k < 17 && o.fks:
			if fk, ok := g.newFk(s, t); ok {
				emit(Stmt{Kind: "addFk", T: t.Name, A: fk.Name, B: fk.Col, RT: fk.RT, RC: fk.RC})
			}
		case k < 18 && o.fks:
			if len(t.Fks) > 0 {
				emit(Stmt{Kind: "dropFk", T: t.Name, A: t.Fks[g.rng.Intn(len(t.Fks))].Name})
			}
		case k < 19 && o.dropTables:
			if !s.referenced(t.Name, "") {
				emit(Stmt{Kind: "dropTable", T: t.Name})
			}
		}
	}
	return out
}

func loadCalls(s *sqlize.Sqlize, st sqlStyle, calls [][]Stmt) string {
	return guard(func() string {
		for _, call := range calls {
			if err := s.FromString(st.script(call)); err != nil {
				return "error:" + firstLine(err.Error())
			}
		}
		return "ok"
	})
}

func runScript(c *ctx, id string, cfg runCfg, ss []Stmt, style sqlStyle, splits []int) {
	// (1) the whole script in one call (sqlite: its reader takes one statement per call — a recorded limitation)
	one := cfg.newSqlize()
	whole := [][]Stmt{ss}
	perStmt := make([][]Stmt, len(ss))
	for i := range ss {
		perStmt[i] = []Stmt{ss[i]}
	}
	if cfg.dialect == "sqlite3" {
		whole = perStmt
	}
	e1 := loadCalls(one, style0(style), whole)
	st1 := guard(func() string { return stateDump(cfg.dialect, migrationOf(one)) })
	dump := guard(func() string { return one.StringUp() })
	dumpDown := guard(func() string { return one.StringDown() })
	hash := guard(func() string { return fmt.Sprint(one.HashValue()) })
	inv := guard(func() string { return invCheck(migrationOf(one)) })
	stAfterOut := guard(func() string { return stateDump(cfg.dialect, migrationOf(one)) })
	// (2) one statement per call, with the random spelling
	two := cfg.newSqlize()
	e2 := loadCalls(two, style, perStmt)
	st2 := guard(func() string { return stateDump(cfg.dialect, migrationOf(two)) })
	// (3) a random split
	var calls [][]Stmt
	prev := 0
	for _, cut := range splits {
		if cut > prev && cut < len(ss) {
			calls = append(calls, ss[prev:cut])
			prev = cut
		}
	}
	calls = append(calls, ss[prev:])
	three := cfg.newSqlize()
	e3 := "ok"
	st3 := st1
	if cfg.dialect != "sqlite3" {
		e3 = loadCalls(three, style0(style), calls)
		st3 = guard(func() string { return stateDump(cfg.dialect, migrationOf(three)) })
	}
	// (4) rejection: garbage after the load must be refused and change nothing
	garbage := []string{"CREATE TABL x (a int);", "\x00\x01 not sql at all", "ALTER TABLE t ADD COLUMN;", "SELECT FROM WHERE", "CREATE TABLE t (a int"}[c.rng.Intn(5)]
	rej := guard(func() string {
		if err := one.FromString(garbage); err != nil {
			return "error"
		}
		return "accepted"
	})
	stAfter := guard(func() string { return stateDump(cfg.dialect, migrationOf(one)) })
	c.emit(id, "script", cfg.sexp(), stmtsSexp(ss),
		obs("err", e1, "state", st1, "stateAfterOutputs", stAfterOut, "dump", dump, "dumpDown", dumpDown, "hash", hash, "inv", inv,
			"errSplit", e2, "splitEq", b2s(st1 == st2), "errSplit2", e3, "split2Eq", b2s(st1 == st3),
			"reject", rej, "rejectUnchanged", b2s(stAfter == stAfterOut)))
	if len(ss) > 1 {
		c.nontrivial(cfg.sexp() + stmtsSexp(ss))
	}
	switch {
	case strings.HasPrefix(e1, "panic:") || strings.HasPrefix(dump, "panic:"):
		c.count("obs_panic")
	case strings.HasPrefix(e1, "error:"):
		c.count("obs_load_error")
	default:
		c.count("obs_loaded")
	}
}

func suiteScript(c *ctx) {
	n := 1500
	if c.tier == "thorough" {
		n = 12000
	}
	if c.n > 0 {
		n = c.n
	}
	runScriptWitnesses(c)
	for i := 0; i < n; i++ {
		dialect := []string{"mysql", "mysql", "mysql", "postgres", "sqlite3"}[c.rng.Intn(5)]
		if c.dialect != "" {
			dialect = c.dialect
		}
		cfg := runCfg{dialect: dialect, lower: c.rng.Intn(2) == 0, ignore: c.rng.Intn(4) == 0}
		g := &gen{rng: c.rng, dialect: dialect}
		o := scriptOpts{steps: 1 + c.rng.Intn(14), positional: dialect == "mysql", drops: true, modifies: dialect == "mysql", renames: c.rng.Intn(3) == 0,
			keys: true, fks: c.rng.Intn(2) == 0, dropTables: c.rng.Intn(2) == 0, renameIndex: c.rng.Intn(4) == 0, using: c.rng.Intn(4) == 0}
		ss := g.randomScript(o, c)
		style := sqlStyle{dialect: dialect, rng: c.rng}
		splits := []int{c.rng.Intn(len(ss) + 1), c.rng.Intn(len(ss) + 1)}
		if splits[0] > splits[1] {
			splits[0], splits[1] = splits[1], splits[0]
		}
		c.count("dialect_" + dialect)
		runScript(c, fmt.Sprintf("s%d", i), cfg, ss, style, splits)
	}
}
