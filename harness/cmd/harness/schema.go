package main

import (
	"fmt"
	"math/rand"
	"strings"
)

// ---------------------------------------------------------------------------------------------------------------------
// Abstract DDL vocabulary (mirrors lean/SqlizeModel/Impl/Stmt.lean) and the harness's own SQL rendering of it.

type Opt struct {
	Kind string // pk notnull null autoinc uniq default comment
	DTag string // default: num str now null
	Val  string // default value / comment text
}

type ColDef struct {
	Name string
	Typ  string // canonical type text of the dialect (what the third-party parser prints)
	Opts []Opt
}

type Stmt struct {
	Kind   string // createTable dropTable addColumn dropColumn modifyColumn renameColumn addPk dropPk addFk dropFk renameIndex createIndex dropIndex commentOn alterType setDefault dropNotNull
	T      string
	Cols   []ColDef // createTable
	Pk     []string // createTable table-level PRIMARY KEY / addPk columns / createIndex columns
	Col    ColDef   // addColumn / modifyColumn
	Pos    string   // none first after
	After  string
	A, B   string // generic names: dropColumn(A) renameColumn(A→B) renameIndex(A→B) createIndex name(A) dropIndex(A) addFk name(A) col(B) dropFk(A) commentOn col(A) text(B)
	RT, RC string // addFk
	Unique bool
	Using  string
}

func (o Opt) sexp() string {
	switch o.Kind {
	case "default":
		if o.DTag == "now" || o.DTag == "null" {
			return L("default", o.DTag)
		}
		return L("default", o.DTag, q(o.Val))
	case "comment":
		return L("comment", q(o.Val))
	}
	return L(o.Kind)
}

func (c ColDef) sexp() string {
	os := make([]string, len(c.Opts))
	for i := range c.Opts {
		os[i] = c.Opts[i].sexp()
	}
	return L("col", q(c.Name), q(c.Typ), L(os...))
}

func (s Stmt) sexp() string {
	switch s.Kind {
	case "createTable":
		cs := make([]string, len(s.Cols))
		for i := range s.Cols {
			cs[i] = s.Cols[i].sexp()
		}
		return L("createTable", q(s.T), L(cs...), qs(s.Pk))
	case "dropTable":
		return L("dropTable", q(s.T))
	case "addColumn":
		pos := L(s.Pos)
		if s.Pos == "after" {
			pos = L("after", q(s.After))
		}
		return L("addColumn", q(s.T), s.Col.sexp(), pos)
	case "dropColumn":
		return L("dropColumn", q(s.T), q(s.A))
	case "modifyColumn":
		return L("modifyColumn", q(s.T), s.Col.sexp())
	case "renameColumn":
		return L("renameColumn", q(s.T), q(s.A), q(s.B))
	case "addPk":
		return L("addPk", q(s.T), qs(s.Pk))
	case "dropPk":
		return L("dropPk", q(s.T))
	case "addFk":
		return L("addFk", q(s.T), q(s.A), q(s.B), q(s.RT), q(s.RC))
	case "dropFk":
		return L("dropFk", q(s.T), q(s.A))
	case "renameIndex":
		return L("renameIndex", q(s.T), q(s.A), q(s.B))
	case "createIndex":
		return L("createIndex", q(s.T), q(s.A), qs(s.Pk), b2s(s.Unique), q(s.Using))
	case "dropIndex":
		return L("dropIndex", q(s.T), q(s.A))
	case "commentOn":
		return L("commentOn", q(s.T), q(s.A), q(s.B))
	case "alterType": // postgres: ALTER COLUMN A TYPE B
		return L("alterType", q(s.T), q(s.A), q(s.B))
	case "setDefault": // postgres: ALTER COLUMN A SET DEFAULT Col.Opts[0]
		return L("setDefault", q(s.T), q(s.A), s.Col.Opts[0].sexp())
	case "dropNotNull": // postgres: ALTER COLUMN A DROP NOT NULL
		return L("dropNotNull", q(s.T), q(s.A))
	}
	panic("unknown stmt kind " + s.Kind)
}

func stmtsSexp(ss []Stmt) string {
	out := make([]string, len(ss))
	for i := range ss {
		out[i] = ss[i].sexp()
	}
	return L(out...)
}

// ---------------------------------------------------------------------------------------------------------------------
// type atoms: canonical text -> spellings accepted by the dialect's parser (validated by every run that uses them)

var mysqlTypeAliases = map[string][]string{
	"int(11)":       {"INT", "INTEGER", "int(11)", "int"},
	"bigint(20)":    {"BIGINT", "bigint(20)"},
	"tinyint(4)":    {"TINYINT", "tinyint(4)"},
	"tinyint(1)":    {"BOOLEAN", "BOOL", "TINYINT(1)"},
	"smallint(6)":   {"SMALLINT"},
	"varchar(64)":   {"VARCHAR(64)", "varchar(64)"},
	"varchar(255)":  {"VARCHAR(255)"},
	"char(3)":       {"CHAR(3)"},
	"text":          {"TEXT", "text"},
	"longtext":      {"LONGTEXT"},
	"datetime":      {"DATETIME", "datetime"},
	"timestamp":     {"TIMESTAMP"},
	"date":          {"DATE"},
	"decimal(10,2)": {"DECIMAL(10,2)", "NUMERIC(10,2)", "decimal(10, 2)"},
	"decimal(12,4)": {"DECIMAL(12,4)"},
	"decimal(5,3)":  {"DECIMAL(5,3)", "decimal(5, 3)"},
	// scale 0 written out: the precision must survive (seeded change C15-m)
	"decimal(12,0)": {"DECIMAL(12,0)", "NUMERIC(12,0)"},
	"decimal(20,0)": {"DECIMAL(20,0)", "decimal(20, 0)"},
	"double":        {"DOUBLE"},
	"float":         {"FLOAT"},
	"json":          {"JSON"},
	"enum('a','b')": {"ENUM('a','b')", "enum('a', 'b')"},
	// unsigned integers: with and without the display width the parser fills in (seeded change C03-l)
	"int(11) UNSIGNED":      {"INT UNSIGNED", "int(11) unsigned", "INTEGER UNSIGNED", "int unsigned"},
	"smallint(6) UNSIGNED":  {"SMALLINT UNSIGNED", "smallint(6) unsigned"},
	"tinyint(4) UNSIGNED":   {"TINYINT UNSIGNED", "tinyint(4) unsigned"},
	"bigint(20) UNSIGNED":   {"BIGINT UNSIGNED", "bigint(20) unsigned"},
	// labels are string literals: their case belongs to the schema, not to the keyword-case option
	"enum('Open','InProgress')": {"ENUM('Open','InProgress')", "enum('Open', 'InProgress')"},
}

var mysqlTypes = []string{"int(11)", "bigint(20)", "tinyint(4)", "tinyint(1)", "smallint(6)", "varchar(64)", "varchar(255)",
	"char(3)", "text", "longtext", "datetime", "timestamp", "date", "decimal(10,2)", "decimal(12,4)", "decimal(5,3)", "double", "float", "json", "enum('a','b')", "enum('Open','InProgress')",
	"int(11) UNSIGNED", "smallint(6) UNSIGNED", "tinyint(4) UNSIGNED", "bigint(20) UNSIGNED"}

var pgTypeAliases = map[string][]string{
	"INT8":          {"BIGINT", "INT8", "INT", "INTEGER"},
	"INT4":          {"INT4"},
	"INT2":          {"SMALLINT"},
	"STRING":        {"TEXT"},
	"VARCHAR(64)":   {"VARCHAR(64)"},
	"VARCHAR(128)":  {"VARCHAR(128)"},
	"DECIMAL(10,2)": {"DECIMAL(10,2)", "NUMERIC(10,2)"},
	"DECIMAL(12,4)": {"DECIMAL(12,4)"},
	"BOOL":          {"BOOLEAN", "BOOL"},
	"TIMESTAMP":     {"TIMESTAMP"},
	"FLOAT8":        {"DOUBLE PRECISION", "FLOAT8"},
	"DATE":          {"DATE"},
}

var pgTypes = []string{"INT8", "INT4", "INT2", "STRING", "VARCHAR(64)", "BOOL", "TIMESTAMP", "FLOAT8", "DATE", "VARCHAR(128)", "DECIMAL(10,2)", "DECIMAL(12,4)"}

// typeSibling: the same base type with other parameters (width, precision, scale)
var typeSibling = map[string]string{
	"VARCHAR(64)": "VARCHAR(128)", "VARCHAR(128)": "VARCHAR(64)", "DECIMAL(10,2)": "DECIMAL(12,4)", "DECIMAL(12,4)": "DECIMAL(10,2)",
	"varchar(64)": "varchar(255)", "varchar(255)": "varchar(64)", "decimal(10,2)": "decimal(12,4)", "decimal(12,4)": "decimal(10,2)",
	"decimal(5,3)": "decimal(10,2)",
}

var sqliteTypes = []string{"INTEGER", "TEXT", "REAL", "BLOB"}

func typesOf(dialect string) []string {
	switch dialect {
	case "postgres":
		return pgTypes
	case "sqlite3":
		return sqliteTypes
	}
	return mysqlTypes
}

// ---------------------------------------------------------------------------------------------------------------------
// SQL rendering (independent of sql-templates)

type sqlStyle struct {
	dialect string
	rng     *rand.Rand // nil: canonical spelling, upper-case keywords
}

func (st sqlStyle) kw(s string) string {
	if st.rng != nil && st.rng.Intn(3) == 0 {
		return strings.ToLower(s)
	}
	return s
}

func (st sqlStyle) id(s string) string {
	if st.dialect == "mysql" {
		return "`" + s + "`"
	}
	return "\"" + s + "\""
}

func (st sqlStyle) typ(canon string) string {
	var al []string
	switch st.dialect {
	case "mysql":
		al = mysqlTypeAliases[canon]
	case "postgres":
		al = pgTypeAliases[canon]
	}
	if len(al) == 0 {
		return canon
	}
	if st.rng == nil {
		return al[0]
	}
	return al[st.rng.Intn(len(al))]
}

func sqlStr(s string) string { return "'" + strings.ReplaceAll(s, "'", "''") + "'" }

func (st sqlStyle) opt(o Opt) string {
	switch o.Kind {
	case "pk":
		return st.kw("PRIMARY KEY")
	case "notnull":
		return st.kw("NOT NULL")
	case "null":
		return st.kw("NULL")
	case "autoinc":
		if st.dialect == "sqlite3" {
			return st.kw("AUTOINCREMENT")
		}
		return st.kw("AUTO_INCREMENT")
	case "uniq":
		return st.kw("UNIQUE")
	case "comment":
		return st.kw("COMMENT") + " " + sqlStr(o.Val)
	case "default":
		switch o.DTag {
		case "num":
			return st.kw("DEFAULT") + " " + o.Val
		case "str":
			return st.kw("DEFAULT") + " " + sqlStr(o.Val)
		case "now":
			return st.kw("DEFAULT") + " " + st.kw("CURRENT_TIMESTAMP")
		case "null":
			return st.kw("DEFAULT") + " " + st.kw("NULL")
		}
	}
	panic("opt kind " + o.Kind)
}

func (st sqlStyle) col(c ColDef) string {
	parts := []string{st.id(c.Name), st.typ(c.Typ)}
	for _, o := range c.Opts {
		parts = append(parts, st.opt(o))
	}
	return strings.Join(parts, " ")
}

func (st sqlStyle) ids(ss []string) string {
	out := make([]string, len(ss))
	for i := range ss {
		out[i] = st.id(ss[i])
	}
	return strings.Join(out, ", ")
}

func (st sqlStyle) stmt(s Stmt) string {
	at := st.kw("ALTER TABLE") + " " + st.id(s.T) + " "
	switch s.Kind {
	case "createTable":
		lines := []string{}
		for _, c := range s.Cols {
			lines = append(lines, "  "+st.col(c))
		}
		if len(s.Pk) > 0 {
			lines = append(lines, "  "+st.kw("PRIMARY KEY")+" ("+st.ids(s.Pk)+")")
		}
		return st.kw("CREATE TABLE") + " " + st.id(s.T) + " (\n" + strings.Join(lines, ",\n") + "\n);"
	case "dropTable":
		if st.rng != nil && st.rng.Intn(2) == 0 {
			return st.kw("DROP TABLE") + " " + st.id(s.T) + ";"
		}
		return st.kw("DROP TABLE IF EXISTS") + " " + st.id(s.T) + ";"
	case "addColumn":
		r := at + st.kw("ADD COLUMN") + " " + st.col(s.Col)
		switch s.Pos {
		case "first":
			r += " " + st.kw("FIRST")
		case "after":
			r += " " + st.kw("AFTER") + " " + st.id(s.After)
		}
		return r + ";"
	case "dropColumn":
		return at + st.kw("DROP COLUMN") + " " + st.id(s.A) + ";"
	case "modifyColumn":
		return at + st.kw("MODIFY COLUMN") + " " + st.col(s.Col) + ";"
	case "renameColumn":
		return at + st.kw("RENAME COLUMN") + " " + st.id(s.A) + " " + st.kw("TO") + " " + st.id(s.B) + ";"
	case "addPk":
		return at + st.kw("ADD PRIMARY KEY") + "(" + st.ids(s.Pk) + ");"
	case "dropPk":
		return at + st.kw("DROP PRIMARY KEY") + ";"
	case "addFk":
		return at + st.kw("ADD CONSTRAINT") + " " + st.id(s.A) + " " + st.kw("FOREIGN KEY") + " (" + st.id(s.B) + ") " +
			st.kw("REFERENCES") + " " + st.id(s.RT) + "(" + st.id(s.RC) + ");"
	case "dropFk":
		if st.dialect == "mysql" {
			return at + st.kw("DROP FOREIGN KEY") + " " + st.id(s.A) + ";"
		}
		return at + st.kw("DROP CONSTRAINT") + " " + st.id(s.A) + ";"
	case "renameIndex":
		return at + st.kw("RENAME INDEX") + " " + st.id(s.A) + " " + st.kw("TO") + " " + st.id(s.B) + ";"
	case "createIndex":
		u := ""
		if s.Unique {
			u = st.kw("UNIQUE") + " "
		}
		r := st.kw("CREATE") + " " + u + st.kw("INDEX") + " " + st.id(s.A) + " " + st.kw("ON") + " " + st.id(s.T) + "(" + st.ids(s.Pk) + ")"
		if s.Using != "" {
			r += " " + st.kw("USING") + " " + s.Using
		}
		return r + ";"
	case "dropIndex":
		if st.dialect != "mysql" {
			return st.kw("DROP INDEX") + " " + st.id(s.A) + ";"
		}
		return st.kw("DROP INDEX") + " " + st.id(s.A) + " " + st.kw("ON") + " " + st.id(s.T) + ";"
	case "alterType":
		return at + st.kw("ALTER COLUMN") + " " + st.id(s.A) + " " + st.kw("TYPE") + " " + st.typ(s.B) + ";"
	case "setDefault":
		return at + st.kw("ALTER COLUMN") + " " + st.id(s.A) + " " + st.kw("SET") + " " + st.opt(s.Col.Opts[0]) + ";"
	case "dropNotNull":
		return at + st.kw("ALTER COLUMN") + " " + st.id(s.A) + " " + st.kw("DROP NOT NULL") + ";"
	case "commentOn":
		if s.B == "" { // IS NULL removes the comment
			return st.kw("COMMENT ON COLUMN") + " " + st.id(s.T) + "." + st.id(s.A) + " " + st.kw("IS NULL") + ";"
		}
		return st.kw("COMMENT ON COLUMN") + " " + st.id(s.T) + "." + st.id(s.A) + " " + st.kw("IS") + " " + sqlStr(s.B) + ";"
	}
	panic("stmt kind " + s.Kind)
}

// tableLevelPk rewrites a single-column inline PRIMARY KEY of every CREATE TABLE as a table-level PRIMARY KEY (col)
// constraint: another spelling of the same schema.  Returns false when no table had one.
func tableLevelPk(ss []Stmt) ([]Stmt, bool) {
	out := append([]Stmt{}, ss...)
	changed := false
	for i, s := range out {
		if s.Kind != "createTable" || len(s.Pk) > 0 {
			continue
		}
		pkCol, n := -1, 0
		for j, c := range s.Cols {
			for _, o := range c.Opts {
				if o.Kind == "pk" {
					pkCol = j
					n++
				}
			}
		}
		if n != 1 {
			continue
		}
		cols := append([]ColDef{}, s.Cols...)
		var opts []Opt
		for _, o := range cols[pkCol].Opts {
			if o.Kind != "pk" {
				opts = append(opts, o)
			}
		}
		cols[pkCol].Opts = opts
		s.Cols = cols
		s.Pk = []string{cols[pkCol].Name}
		out[i] = s
		changed = true
	}
	return out, changed
}

// scriptInlineKeys renders createIndex statements that directly follow their createTable as inline KEY / UNIQUE KEY
// clauses of that CREATE TABLE (MySQL), the way a hand-written schema often declares them
func (st sqlStyle) scriptInlineKeys(ss []Stmt) string { return st.scriptInlineKeysUsing(ss, "") }

// scriptInlineKeysUsing: the indexes that directly follow their table, written as inline KEY / UNIQUE KEY items of the
// CREATE TABLE, each with the given ` USING …` clause ("" = none)
func (st sqlStyle) scriptInlineKeysUsing(ss []Stmt, using string) string {
	var out []string
	for i := 0; i < len(ss); i++ {
		s := ss[i]
		if s.Kind != "createTable" {
			out = append(out, st.stmt(s))
			continue
		}
		var keys []string
		j := i + 1
		for j < len(ss) && ss[j].Kind == "createIndex" && ss[j].T == s.T && ss[j].Using == "" {
			k := st.kw("KEY")
			if ss[j].Unique {
				k = st.kw("UNIQUE KEY")
			}
			keys = append(keys, "  "+k+" "+st.id(ss[j].A)+" ("+st.ids(ss[j].Pk)+")"+using)
			j++
		}
		txt := st.stmt(s)
		if len(keys) > 0 {
			txt = strings.TrimSuffix(txt, "\n);") + ",\n" + strings.Join(keys, ",\n") + "\n);"
		}
		out = append(out, txt)
		i = j - 1
	}
	return strings.Join(out, "\n")
}

func (st sqlStyle) script(ss []Stmt) string {
	out := make([]string, len(ss))
	for i := range ss {
		out[i] = st.stmt(ss[i])
	}
	return strings.Join(out, "\n")
}

// ---------------------------------------------------------------------------------------------------------------------
// a small schema value used only to *guide generation* towards well-formed scripts (the Lean reference engine is the
// judge of well-formedness, not this)

type gIndex struct {
	Name   string
	Cols   []string
	Unique bool
	Using  string
}

type gFk struct{ Name, Col, RT, RC string }

type gTable struct {
	Name string
	Cols []ColDef
	Pk   []string // table-level / ADD PRIMARY KEY columns (inline PK is an option of the column)
	Idx  []gIndex
	Fks  []gFk
}

type gSchema struct{ Tables []*gTable }

func (s *gSchema) table(name string) *gTable {
	for _, t := range s.Tables {
		if t.Name == name {
			return t
		}
	}
	return nil
}

func (t *gTable) colIndex(name string) int {
	for i := range t.Cols {
		if t.Cols[i].Name == name {
			return i
		}
	}
	return -1
}

func (t *gTable) hasPk() bool {
	if len(t.Pk) > 0 {
		return true
	}
	for _, c := range t.Cols {
		for _, o := range c.Opts {
			if o.Kind == "pk" {
				return true
			}
		}
	}
	return false
}

func (s *gSchema) clone() *gSchema {
	out := &gSchema{}
	for _, t := range s.Tables {
		nt := &gTable{Name: t.Name, Pk: append([]string{}, t.Pk...)}
		for _, c := range t.Cols {
			nt.Cols = append(nt.Cols, ColDef{c.Name, c.Typ, append([]Opt{}, c.Opts...)})
		}
		for _, i := range t.Idx {
			nt.Idx = append(nt.Idx, gIndex{i.Name, append([]string{}, i.Cols...), i.Unique, i.Using})
		}
		nt.Fks = append(nt.Fks, t.Fks...)
		out.Tables = append(out.Tables, nt)
	}
	return out
}

// canonical script of a schema: CREATE TABLEs, then keys/indexes, then foreign keys
func (s *gSchema) script() []Stmt {
	var out []Stmt
	for _, t := range s.Tables {
		out = append(out, Stmt{Kind: "createTable", T: t.Name, Cols: t.Cols})
	}
	for _, t := range s.Tables {
		out = append(out, t.keyStmts()...)
	}
	for _, t := range s.Tables {
		for _, f := range t.Fks {
			out = append(out, Stmt{Kind: "addFk", T: t.Name, A: f.Name, B: f.Col, RT: f.RT, RC: f.RC})
		}
	}
	return out
}

func (t *gTable) keyStmts() []Stmt {
	var out []Stmt
	if len(t.Pk) > 0 {
		out = append(out, Stmt{Kind: "addPk", T: t.Name, Pk: t.Pk})
	}
	for _, i := range t.Idx {
		out = append(out, Stmt{Kind: "createIndex", T: t.Name, A: i.Name, Pk: i.Cols, Unique: i.Unique, Using: i.Using})
	}
	return out
}

// grouped script: every table followed at once by its own keys and indexes (what FromObjects produces per model),
// foreign keys last
func (s *gSchema) scriptGrouped() []Stmt {
	var out []Stmt
	for _, t := range s.Tables {
		out = append(out, Stmt{Kind: "createTable", T: t.Name, Cols: t.Cols})
		out = append(out, t.keyStmts()...)
	}
	for _, t := range s.Tables {
		for _, f := range t.Fks {
			out = append(out, Stmt{Kind: "addFk", T: t.Name, A: f.Name, B: f.Col, RT: f.RT, RC: f.RC})
		}
	}
	return out
}

func (s *gSchema) key() string {
	return fmt.Sprintf("%v", stmtsSexp(s.script()))
}
