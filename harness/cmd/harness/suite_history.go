package main

import (
	"fmt"
	"os"
	"path/filepath"
	"time"

	"github.com/sunary/sqlize"
)

// Suite history (C04): the documented workflow over sequences of model revisions M1..Mk, starting from an empty history:
// load models, load history, diff, append the up migration to the history.  After every step the reloaded history must
// be equal to the models (next diff empty both ways, same HashValue); the recorded migrations are replayed on the
// reference engine by the Lean driver.  In-memory histories (text) and on-disk ones (WriteFiles / FromMigrationFolder).

func init() { suites["history"] = suiteHistory }

type histStep struct {
	models               []Stmt
	up, down             string
	nextUp, nextDown     string
	hashHist, hashModels string
	errs                 string
}

func (h histStep) sexp() string {
	return L(stmtsSexp(h.models), q(h.up), q(h.down), q(h.nextUp), q(h.nextDown), q(h.hashHist), q(h.hashModels), q(h.errs))
}

func runHistory(c *ctx, id string, cfg runCfg, revs [][]Stmt, onDisk bool, root string, versioned ...bool) {
	st := sqlStyle{dialect: cfg.dialect}
	hist := ""
	dir := ""
	if onDisk {
		dir = filepath.Join(root, id)
		os.MkdirAll(dir, 0755)
	}
	loadHist := func(s *sqlize.Sqlize) string {
		return guard(func() string {
			if onDisk {
				if err := s.FromMigrationFolder(); err != nil {
					return "error:" + firstLine(err.Error())
				}
				return "ok"
			}
			if cfg.dialect == "sqlite3" {
				return "ok" // the sqlite reader takes one statement per call: history text cannot be reloaded (recorded finding)
			}
			if err := s.FromString(hist); err != nil {
				return "error:" + firstLine(err.Error())
			}
			return "ok"
		})
	}
	newS := func() *sqlize.Sqlize {
		if onDisk {
			return cfg.newSqlize(sqlize.WithMigrationFolder(dir))
		}
		return cfg.newSqlize()
	}
	var steps []string
	for i, rev := range revs {
		var hs histStep
		hs.models = rev
		models, h := newS(), newS()
		e1 := load(models, cfg, st, rev)
		e2 := loadHist(h)
		e3 := guard(func() string { models.Diff(*h); return "ok" })
		hs.up = guard(func() string { return models.StringUp() })
		hs.down = guard(func() string { return models.StringDown() })
		if onDisk {
			e := guard(func() string {
				var err error
				if len(versioned) > 0 && versioned[0] {
					// version 0 in the first file: the folder then declares the bookkeeping table itself
					err = models.WriteFilesWithVersion(fmt.Sprintf("rev %d", i), int64(i), false)
				} else {
					err = models.WriteFiles(fmt.Sprintf("rev %d", i))
				}
				if err != nil {
					return "error:" + firstLine(err.Error())
				}
				return "ok"
			})
			if e != "ok" {
				e3 = e
			}
			time.Sleep(1020 * time.Millisecond)
		} else if hs.up != "" {
			hist += hs.up + "\n"
		}
		// reload the extended history and compare with a fresh load of the models
		m2, h2 := newS(), newS()
		e4 := load(m2, cfg, st, rev)
		e5 := loadHist(h2)
		hs.hashHist = guard(func() string { return fmt.Sprint(h2.HashValue()) })
		hs.hashModels = guard(func() string { return fmt.Sprint(m2.HashValue()) })
		e6 := guard(func() string { m2.Diff(*h2); return "ok" })
		hs.nextUp = guard(func() string { return m2.StringUp() })
		hs.nextDown = guard(func() string { return m2.StringDown() })
		hs.errs = fmt.Sprint(e1, ",", e2, ",", e3, ",", e4, ",", e5, ",", e6)
		steps = append(steps, hs.sexp())
	}
	tag := "history"
	if len(versioned) > 0 && versioned[0] {
		tag = "historyv"
	}
	c.emit(id, tag, cfg.sexp(), b2s(onDisk), L(steps...))
	c.nontrivial(id + cfg.sexp() + fmt.Sprint(len(revs)))
	c.counts["revisions"] += len(revs)
}

func suiteHistory(c *ctx) {
	root := filepath.Join(os.Getenv("VERIF_WORK"), fmt.Sprintf("history-%d", os.Getpid()))
	if os.Getenv("VERIF_WORK") == "" {
		root = filepath.Join(os.TempDir(), fmt.Sprintf("verif-history-%d", os.Getpid()))
	}
	os.RemoveAll(root)
	defer os.RemoveAll(root)
	nMem, nDisk, maxLen := 250, 3, 8
	if c.tier == "thorough" {
		nMem, nDisk, maxLen = 2500, 8, 40
	}
	if c.n > 0 {
		nMem = c.n
	}
	mkRevs := func(dialect string, k int) [][]Stmt {
		g := &gen{rng: c.rng, dialect: dialect, noDefaults: dialect == "sqlite3"}
		so := schemaOpts{maxTables: 1 + c.rng.Intn(3), maxCols: 1 + c.rng.Intn(4), indexes: true, fks: dialect == "mysql" && c.rng.Intn(2) == 0}
		cur := g.schema(so)
		revs := [][]Stmt{cur.scriptGrouped()}
		for i := 1; i < k; i++ {
			cur = g.mutate(cur, mutateOpts{schemaOpts: so, edits: 1 + c.rng.Intn(4), retype: true, reopt: true, redefineIndex: true, dropTables: true}, c)
			revs = append(revs, cur.scriptGrouped())
		}
		return revs
	}
	// hand-written histories: the documented workflow on the cases the property names
	w := [][][]Stmt{
		{ // drop an indexed column, then nothing
			{tbl("t", ints("a", "b")...), idx("t", "i", false, "b")},
			{tbl("t", ints("a")...)},
			{tbl("t", ints("a")...)},
		},
		{ // drop a table, drop a foreign key, change options
			{tbl("u", col("id", "int(11)", oNotNull, oPk)), tbl("t", ints("id", "uid")...), fk("t", "fk_u_t", "uid", "u", "id")},
			{tbl("u", col("id", "int(11)", oNotNull, oPk)), tbl("t", col("id", "int(11)", oNotNull), col("uid", "int(11)"))},
			{tbl("t", col("id", "int(11)", oNotNull), col("uid", "int(11)"))},
		},
	}
	w = append(w,
		[][]Stmt{ // C04-a: a column carrying two single-column indexes is dropped
			{tbl("t", ints("a", "b")...), idx("t", "i1", false, "b"), idx("t", "i2", true, "b")},
			{tbl("t", ints("a")...)},
			{tbl("t", ints("a", "c")...)},
		},
		[][]Stmt{ // C04-b / C04-c: an index keeps its name, moves to another column, and its old column is dropped
			{tbl("account", ints("id", "name", "email")...)},
			{tbl("account", ints("id", "name", "email", "login")...), idx("account", "idx_lookup", true, "login")},
			{tbl("account", ints("id", "name", "email")...), idx("account", "idx_lookup", true, "email")},
		})
	for i, revs := range w {
		runHistory(c, fmt.Sprintf("w-history-%d", i), my, revs, false, root)
	}
	// the fingerprint clause and the order of the tables (C04.model_fingerprint / recorded finding fingerprint-table-order):
	// a new table listed after the old ones (inside the theorem's hypothesis), and listed before them (the finding)
	runHistory(c, "w-history-new-table-listed-last", my, [][]Stmt{
		{tbl("t", ints("a", "b")...), idx("t", "i", false, "b")},
		{tbl("t", ints("a", "b")...), idx("t", "i", false, "b"), tbl("u", ints("x")...)},
		{tbl("t", ints("a")...), tbl("u", ints("x", "y")...), tbl("v", ints("z")...)},
		{tbl("u", ints("x", "y")...), tbl("v", ints("z")...)},
	}, false, root)
	runHistory(c, "w-KF-fingerprint-table-order", my, [][]Stmt{
		{tbl("t", ints("a")...)},
		{tbl("u", ints("x")...), tbl("t", ints("a")...)},
	}, false, root)
	for i := 0; i < nMem; i++ {
		dialect := []string{"mysql", "mysql", "mysql", "mysql", "postgres", "sqlite3"}[c.rng.Intn(6)]
		if c.dialect != "" {
			dialect = c.dialect
		}
		cfg := runCfg{dialect: dialect, lower: c.rng.Intn(2) == 0, ignore: c.rng.Intn(4) == 0}
		k := 2 + c.rng.Intn(maxLen-1)
		c.count("dialect_" + dialect)
		runHistory(c, fmt.Sprintf("m%d", i), cfg, mkRevs(dialect, k), false, root)
	}
	for i := 0; i < nDisk; i++ {
		cfg := runCfg{dialect: "mysql", lower: i%2 == 0, ignore: i%3 == 2} // every third one under the ignore-field-order option
		runHistory(c, fmt.Sprintf("d%d", i), cfg, mkRevs("mysql", 3), true, root)
		c.count("on_disk_histories")
	}
	// C04-g: a versioned folder (its first file creates the bookkeeping table), a table created by a later file and
	// dropped again, then re-created with another shape
	vrevs := [][]Stmt{
		{tbl("a", ints("x")...)},
		{tbl("a", ints("x")...), tbl("b", ints("y")...)},
		{tbl("a", ints("x")...)},
		{tbl("a", ints("x")...), tbl("b", ints("y", "z")...)},
	}
	runHistory(c, "w-disk-versioned", my, vrevs, true, root, true)
	// C04-r: a folder in which a later migration has the same text as an earlier one (a table created, dropped, created
	// again the same way; a column added, dropped, added again)
	runHistory(c, "w-disk-revisited", my, [][]Stmt{
		{tbl("a", ints("x")...)},
		{tbl("a", ints("x")...), tbl("b", ints("y")...)},
		{tbl("a", ints("x")...)},
		{tbl("a", ints("x")...), tbl("b", ints("y")...)},
		{tbl("a", ints("x", "w")...), tbl("b", ints("y")...)},
		{tbl("a", ints("x")...), tbl("b", ints("y")...)},
		{tbl("a", ints("x", "w")...), tbl("b", ints("y")...)},
	}, true, root)
	c.count("on_disk_histories")
	// C13-c: under the ignore-field-order option, with the history read back from a migration folder at every step, a
	// column added in the middle and one added in front must not get a positional clause
	runHistory(c, "w-disk-ignore-order", runCfg{dialect: "mysql", lower: false, ignore: true}, [][]Stmt{
		{tbl("t", ints("a", "c")...)},
		{tbl("t", ints("a", "b", "c")...)},
		{tbl("t", ints("z", "a", "b", "c")...)},
	}, true, root)
	c.count("on_disk_histories")
	c.count("on_disk_histories")
}
