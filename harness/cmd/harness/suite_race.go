package main

import (
	"fmt"
	"os"
	"strings"
	"sync"

	"github.com/sunary/sqlize"
)

// Suite race (C17): instances with the same options are constructed first; then N goroutines each drive their own pair
// of instances through load / hash / diff / print / export.  Results must equal the sequential ones; the binary is built
// with -race, so a data race makes the process exit with status 66 after printing "WARNING: DATA RACE".

func init() { suites["race"] = suiteRace }

type raceJob struct {
	old, new []Stmt
}

func driveJob(cfg runCfg, so, sn *sqlize.Sqlize, j raceJob) string {
	st := sqlStyle{dialect: cfg.dialect}
	var out []string
	out = append(out, load(so, cfg, st, j.old), load(sn, cfg, st, j.new))
	out = append(out, guard(func() string { return fmt.Sprint(so.HashValue(), sn.HashValue()) }))
	out = append(out, guard(func() string { return sn.MermaidJsErd() }))
	out = append(out, guard(func() string { sn.Diff(*so); return "diffed" }))
	out = append(out, guard(func() string { return sn.StringUp() }))
	out = append(out, guard(func() string { return sn.StringDown() }))
	out = append(out, guard(func() string { return sn.StringUpWithVersion(3, false) }))
	out = append(out, guard(func() string { return strings.Join(sn.ArvoSchema(), "\n") }))
	out = append(out, guard(func() string { return sn.MermaidJsLive() }))
	return strings.Join(out, "\x1f")
}

func suiteRace(c *ctx) {
	rounds, n := 6, 8
	if c.tier == "thorough" {
		rounds, n = 40, 16
	}
	id := 0
	for r := 0; r < rounds; r++ {
		dialect := []string{"mysql", "mysql", "postgres", "sqlite3"}[r%4]
		cfg := runCfg{dialect: dialect, lower: r%2 == 0, ignore: r%3 == 0}
		g := &gen{rng: c.rng, dialect: dialect, noDefaults: dialect == "sqlite3"}
		jobs := make([]raceJob, n)
		for i := range jobs {
			so := schemaOpts{maxTables: 1 + c.rng.Intn(3), maxCols: 1 + c.rng.Intn(5), indexes: true, fks: dialect == "mysql"}
			old := g.schema(so)
			nw := g.mutate(old, mutateOpts{schemaOpts: so, edits: 1 + c.rng.Intn(5), retype: true, reopt: true, redefineIndex: true, dropTables: true}, c)
			jobs[i] = raceJob{old.scriptGrouped(), nw.scriptGrouped()}
		}
		// sequential reference
		seq := make([]string, n)
		for i := range jobs {
			seq[i] = driveJob(cfg, cfg.newSqlize(), cfg.newSqlize(), jobs[i])
		}
		// all instances are constructed before any goroutine starts
		olds, news := make([]*sqlize.Sqlize, n), make([]*sqlize.Sqlize, n)
		for i := range jobs {
			olds[i], news[i] = cfg.newSqlize(), cfg.newSqlize()
		}
		conc := make([]string, n)
		var wg sync.WaitGroup
		for i := range jobs {
			wg.Add(1)
			go func(i int) {
				defer wg.Done()
				if os.Getenv("VERIF_RACE_SELFTEST") != "" {
					// self-test of the detector: constructing inside the goroutines writes the package-level state concurrently
					olds[i], news[i] = cfg.newSqlize(), cfg.newSqlize()
				}
				conc[i] = driveJob(cfg, olds[i], news[i], jobs[i])
			}(i)
		}
		wg.Wait()
		for i := range jobs {
			c.emit(fmt.Sprintf("g%d", id), "race", cfg.sexp(), b2s(seq[i] == conc[i]), q(clip(seq[i], 400)), q(clip(conc[i], 400)))
			c.nontrivial(fmt.Sprint(r, i, seq[i]))
			id++
		}
		c.count("rounds")
	}
	c.counts["goroutines_per_round"] = n
}
