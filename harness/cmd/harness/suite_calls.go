package main

import (
	"fmt"
	"strings"

	"github.com/sunary/sqlize"
)

// Suite calls (C08): on loaded / diffed states from the pair space, every output method is called in many orders; each
// call must return the bytes a fresh instance returns for the same state, and output calls made *before* Diff must not
// change what Diff + StringUp/StringDown produce.

func init() { suites["calls"] = suiteCalls }

var outputMethods = []string{"StringUp", "StringDown", "StringUpWithVersion", "StringDownWithVersion", "HashValue", "MermaidJsErd", "MermaidJsLive", "ArvoSchema",
	// the exporters with a table filter that selects the table declared last (seeded change C08-f: selecting in place)
	"MermaidJsErd-last", "MermaidJsLive-last", "ArvoSchema-last"}

// the table the filtered exporter calls select: the one the new side declares last (set by `build`)
var filterTable string

func lastTable(ss []Stmt) string {
	t := ""
	for _, s := range ss {
		if s.Kind == "createTable" {
			t = s.T
		}
	}
	return t
}

func callOutput(s *sqlize.Sqlize, m string) string {
	return guard(func() string {
		switch m {
		case "StringUp":
			return s.StringUp()
		case "StringDown":
			return s.StringDown()
		case "StringUpWithVersion":
			return s.StringUpWithVersion(42, true)
		case "StringDownWithVersion":
			return s.StringDownWithVersion(42)
		case "HashValue":
			return fmt.Sprint(s.HashValue())
		case "MermaidJsErd":
			return s.MermaidJsErd()
		case "MermaidJsLive":
			return s.MermaidJsLive()
		case "ArvoSchema":
			return strings.Join(s.ArvoSchema(), "\n")
		case "MermaidJsErd-last":
			return s.MermaidJsErd(filterTable)
		case "MermaidJsLive-last":
			return s.MermaidJsLive(filterTable)
		case "ArvoSchema-last":
			return strings.Join(s.ArvoSchema(filterTable), "\n")
		}
		return "?"
	})
}

func suiteCalls(c *ctx) {
	nStates, seqLen, nRandom := 30, 2, 300
	if c.tier == "thorough" {
		nStates, seqLen, nRandom = 40, 3, 3000
	}
	if c.n > 0 {
		nRandom = c.n
	}
	mk := func(i int) (runCfg, []Stmt, []Stmt, bool) {
		dialect := []string{"mysql", "mysql", "postgres", "sqlite3"}[c.rng.Intn(4)]
		if c.dialect != "" {
			dialect = c.dialect
		}
		cfg := runCfg{dialect: dialect, lower: c.rng.Intn(2) == 0, ignore: c.rng.Intn(4) == 0}
		g := &gen{rng: c.rng, dialect: dialect, noDefaults: dialect == "sqlite3"}
		so := schemaOpts{maxTables: 1 + c.rng.Intn(3), maxCols: 1 + c.rng.Intn(5), indexes: true, fks: dialect == "mysql" && c.rng.Intn(2) == 0}
		old := g.schema(so)
		nw := g.mutate(old, mutateOpts{schemaOpts: so, edits: 1 + c.rng.Intn(5), retype: true, reopt: true, redefineIndex: true, dropTables: true}, c)
		if dialect == "mysql" && c.rng.Intn(3) == 0 {
			// states from the script space: histories with renames, modifies, drops, positional adds
			o := scriptOpts{steps: 2 + c.rng.Intn(10), positional: true, drops: true, modifies: true, renames: true, keys: true, fks: true, dropTables: true, renameIndex: true, using: true}
			ns := g.randomScript(o, c)
			os := ns[:c.rng.Intn(len(ns)+1)]
			if c.rng.Intn(2) == 0 {
				os = g.randomScript(o, c)
			}
			c.count("states_from_scripts")
			return cfg, os, ns, c.rng.Intn(3) != 0
		}
		return cfg, old.scriptGrouped(), nw.scriptGrouped(), c.rng.Intn(3) != 0
	}
	build := func(cfg runCfg, oldS, newS []Stmt, diffed bool, pre []string) *sqlize.Sqlize {
		so, sn := cfg.newSqlize(), cfg.newSqlize()
		st := sqlStyle{dialect: cfg.dialect}
		filterTable = lastTable(newS)
		load(so, cfg, st, oldS)
		load(sn, cfg, st, newS)
		for i, m := range pre { // output calls before Diff, alternating between the two sides
			if i%2 == 0 {
				callOutput(sn, m)
			} else {
				callOutput(so, m)
			}
		}
		if diffed {
			guard(func() string { sn.Diff(*so); return "" })
		}
		return sn
	}
	runSeq := func(id string, cfg runCfg, oldS, newS []Stmt, diffed bool, pre, seq []string, base map[string]string) {
		inst := build(cfg, oldS, newS, diffed, pre)
		var results []string
		for _, m := range seq {
			out := callOutput(inst, m)
			results = append(results, L(m, b2s(out == base[m]), q(clip(out, 300)), q(clip(base[m], 300))))
		}
		c.emit(id, "calls", cfg.sexp(), b2s(diffed), qs(pre), L(results...))
		c.nontrivial(id + cfg.sexp() + stmtsSexp(oldS) + stmtsSexp(newS) + strings.Join(seq, ","))
	}
	baseline := func(cfg runCfg, oldS, newS []Stmt, diffed bool) map[string]string {
		base := map[string]string{}
		for _, m := range outputMethods {
			base[m] = callOutput(build(cfg, oldS, newS, diffed, nil), m)
		}
		return base
	}
	// hand-written states first (shapes the seeded changes C08-c / C08-d needed): two foreign keys of one table whose
	// referenced tables are not in ascending order, a renamed index in a created table, an index on several columns
	type wstate struct {
		oldS, newS []Stmt
		diffed     bool
	}
	parents := []Stmt{tbl("user", col("id", "int(11)", oNotNull, oPk)), tbl("city", col("id", "int(11)", oNotNull, oPk))}
	twoFk := append(append([]Stmt{}, parents...), tbl("orders", ints("id", "uid", "cid")...),
		fk("orders", "fk_user_orders", "uid", "user", "id"), fk("orders", "fk_city_orders", "cid", "city", "id"))
	renamed := []Stmt{tbl("t", ints("a", "b", "c")...), idx("t", "i", false, "a"), {Kind: "renameIndex", T: "t", A: "i", B: "j"}, idx("t", "k", true, "b", "c")}
	// seeded change C08-q: a modified column that is the inline key on both sides, PRIMARY KEY not its last option
	keyOld := []Stmt{tbl("account", col("id", "int(11)", oPk, Opt{Kind: "autoinc"}, Opt{Kind: "comment", Val: "account id"}), col("name", "varchar(64)"))}
	keyNew := []Stmt{tbl("account", col("id", "bigint(20)", oPk, Opt{Kind: "autoinc"}, Opt{Kind: "comment", Val: "account id"}), col("name", "varchar(64)"))}
	wstates := []wstate{
		{nil, twoFk, false}, {parents, twoFk, true}, {twoFk, parents, true},
		{nil, renamed, false}, {renamed, []Stmt{tbl("t", ints("a", "b", "c")...)}, true},
		{keyOld, keyNew, true},
	}
	for wi, w := range wstates {
		cfg := runCfg{dialect: "mysql", lower: wi%2 == 1}
		base := baseline(cfg, w.oldS, w.newS, w.diffed)
		k := 0
		for _, m1 := range outputMethods {
			for _, m2 := range outputMethods {
				runSeq(fmt.Sprintf("w%d-%d", wi, k), cfg, w.oldS, w.newS, w.diffed, nil, []string{m1, m2}, base)
				k++
			}
		}
		// an output call on either side before Diff
		if w.diffed {
			for _, m1 := range outputMethods {
				runSeq(fmt.Sprintf("w%d-pre-%s", wi, m1), cfg, w.oldS, w.newS, true, []string{m1, m1}, []string{"StringUp", "StringDown", "HashValue"}, base)
			}
		}
		c.counts["witness_states"]++
	}
	// exhaustive short sequences on a few states
	for s := 0; s < nStates; s++ {
		cfg, oldS, newS, diffed := mk(s)
		base := baseline(cfg, oldS, newS, diffed)
		var rec func(prefix []string)
		k := 0
		rec = func(prefix []string) {
			if len(prefix) == seqLen {
				runSeq(fmt.Sprintf("x%d-%d", s, k), cfg, oldS, newS, diffed, nil, prefix, base)
				k++
				return
			}
			for _, m := range outputMethods {
				rec(append(append([]string{}, prefix...), m))
			}
		}
		rec(nil)
		c.counts["exhaustive_sequences"] += k
	}
	// random longer sequences, with output calls before Diff
	for i := 0; i < nRandom; i++ {
		cfg, oldS, newS, diffed := mk(i)
		base := baseline(cfg, oldS, newS, diffed)
		n := 3 + c.rng.Intn(5)
		seq := make([]string, n)
		for j := range seq {
			seq[j] = outputMethods[c.rng.Intn(len(outputMethods))]
		}
		var pre []string
		if diffed {
			for j := c.rng.Intn(4); j > 0; j-- {
				pre = append(pre, outputMethods[c.rng.Intn(len(outputMethods))])
			}
		}
		if len(pre) > 0 {
			c.count("with_calls_before_diff")
		}
		runSeq(fmt.Sprintf("r%d", i), cfg, oldS, newS, diffed, pre, seq, base)
	}
}

func clip(s string, n int) string {
	if len(s) > n {
		return s[:n] + "…"
	}
	return s
}
