package main

import (
	"fmt"
	"strings"

	"github.com/sunary/sqlize"
)

// Suite pair (C01 C02 C03 C13, feeds C07 C08 C10): pairs (old,new) of schemas; both loaded through the public API,
// diffed, printed; white-box state after load and after Diff.

func init() { suites["pair"] = suitePair }

type runCfg struct {
	dialect string
	lower   bool
	ignore  bool
}

func (r runCfg) sexp() string { return L("cfg", r.dialect, b2s(r.lower), b2s(r.ignore)) }

func (r runCfg) newSqlize(extra ...sqlize.SqlizeOption) *sqlize.Sqlize {
	opts := []sqlize.SqlizeOption{}
	switch r.dialect {
	case "postgres":
		opts = append(opts, sqlize.WithPostgresql())
	case "sqlite3":
		opts = append(opts, sqlize.WithSqlite())
	default:
		opts = append(opts, sqlize.WithMysql())
	}
	if r.lower {
		opts = append(opts, sqlize.WithSqlLowercase())
	}
	if r.ignore {
		opts = append(opts, sqlize.WithIgnoreFieldOrder())
	}
	return sqlize.NewSqlize(append(opts, extra...)...)
}

// load feeds a script to FromString: in one call, except for sqlite whose reader takes one statement per call.
func load(s *sqlize.Sqlize, cfg runCfg, st sqlStyle, ss []Stmt) string {
	return guard(func() string {
		if cfg.dialect == "sqlite3" {
			for _, x := range ss {
				if err := s.FromString(st.stmt(x)); err != nil {
					return "error:" + firstLine(err.Error())
				}
			}
			return "ok"
		}
		if err := s.FromString(st.script(ss)); err != nil {
			return "error:" + firstLine(err.Error())
		}
		return "ok"
	})
}

func obs(kv ...string) string {
	out := []string{}
	for i := 0; i+1 < len(kv); i += 2 {
		out = append(out, L(kv[i], q(kv[i+1])))
	}
	return L(out...)
}

func dialectsFor(c *ctx) []string { return []string{"mysql", "postgres", "sqlite3"} }

func runPair(c *ctx, id string, cfg runCfg, oldS, newS []Stmt, style sqlStyle) {
	so, sn := cfg.newSqlize(), cfg.newSqlize()
	eo := load(so, cfg, style, oldS)
	en := load(sn, cfg, style, newS)
	stOld := guard(func() string { return stateDump(cfg.dialect, migrationOf(so)) })
	stNew := guard(func() string { return stateDump(cfg.dialect, migrationOf(sn)) })
	hOld := guard(func() string { return fmt.Sprint(so.HashValue()) })
	hNew := guard(func() string { return fmt.Sprint(sn.HashValue()) })
	ed := guard(func() string { sn.Diff(*so); return "ok" })
	stDiff := guard(func() string { return stateDump(cfg.dialect, migrationOf(sn)) })
	up := guard(func() string { return sn.StringUp() })
	down := guard(func() string { return sn.StringDown() })
	up2 := guard(func() string { return sn.StringUp() })
	inv := guard(func() string { return invCheck(migrationOf(sn)) })
	// the same pair under the other setting of the field-order option (C13); constructed afterwards because
	// NewSqlize writes the package-level option
	fcfg := cfg
	fcfg.ignore = !cfg.ignore
	fo, fn := fcfg.newSqlize(), fcfg.newSqlize()
	load(fo, fcfg, style0(style), oldS)
	load(fn, fcfg, style0(style), newS)
	upFlip, downFlip := "", ""
	if r := guard(func() string { fn.Diff(*fo); return "ok" }); r == "ok" {
		upFlip = guard(func() string { return fn.StringUp() })
		downFlip = guard(func() string { return fn.StringDown() })
	} else {
		upFlip, downFlip = r, r
	}
	// the same pair under the other keyword-case option (C10)
	ccfg := cfg
	ccfg.lower = !cfg.lower
	co, cn := ccfg.newSqlize(), ccfg.newSqlize()
	load(co, ccfg, style0(style), oldS)
	load(cn, ccfg, style0(style), newS)
	upCase, downCase := "", ""
	if r := guard(func() string { cn.Diff(*co); return "ok" }); r == "ok" {
		upCase = guard(func() string { return cn.StringUp() })
		downCase = guard(func() string { return cn.StringDown() })
	} else {
		upCase, downCase = r, r
	}
	c.emit(id, "pair", cfg.sexp(), stmtsSexp(oldS), stmtsSexp(newS),
		obs("upCase", upCase, "downCase", downCase, "errOld", eo, "errNew", en, "stOld", stOld, "stNew", stNew, "hOld", hOld, "hNew", hNew, "errDiff", ed,
			"stDiff", stDiff, "up", up, "down", down, "up2", up2, "inv", inv, "upFlip", upFlip, "downFlip", downFlip))
	if up != "" || down != "" {
		c.nontrivial(cfg.sexp() + stmtsSexp(oldS) + stmtsSexp(newS))
	}
	switch {
	case strings.HasPrefix(up, "panic:") || strings.HasPrefix(down, "panic:") || strings.HasPrefix(ed, "panic:"):
		c.count("obs_panic")
	case up == "" && down == "":
		c.count("obs_empty_migration")
	default:
		c.count("obs_nonempty_migration")
	}
}

func routeNames(dialect string) []string {
	routes := []string{"canonical", "grouped", "per-statement", "random-spelling", "own-dump"}
	if dialect == "mysql" {
		routes = append(routes, "explicit-using-btree", "inline-keys", "table-level-pk", "inline-keys-using-btree", "pk-in-create-table")
	}
	if dialect == "postgres" {
		routes = append(routes, "alter-column-type")
	}
	return routes
}

// identifiers the postgres parser prints back with quotes (Spec.Scope.pgQuoted)
func pgQuotedName(n string) bool {
	switch n {
	case "select", "order", "group", "desc", "index", "user", "table", "column":
		return true
	}
	return false
}

// another type of the same family (the change an ALTER COLUMN … TYPE usually makes), or any other type
func pgSibling(t string) string {
	switch t {
	case "INT8":
		return "INT4"
	case "INT4":
		return "INT2"
	case "INT2":
		return "INT8"
	case "VARCHAR(64)":
		return "VARCHAR(128)"
	case "VARCHAR(128)":
		return "STRING"
	case "STRING":
		return "VARCHAR(64)"
	case "DECIMAL(10,2)":
		return "DECIMAL(12,4)"
	case "DECIMAL(12,4)":
		return "DECIMAL(10,2)"
	case "FLOAT8":
		return "DECIMAL(10,2)"
	case "BOOL":
		return "INT2"
	case "DATE":
		return "TIMESTAMP"
	case "TIMESTAMP":
		return "DATE"
	}
	return t
}

// runRoutes (C03): one schema loaded by two different routes must diff to nothing; fixed = "" picks the two routes at random
func runRoutes(c *ctx, id string, cfg runCfg, s *gSchema) { runRoutesFixed(c, id, cfg, s, "", "") }

func runRoutesFixed(c *ctx, id string, cfg runCfg, s *gSchema, fix1, fix2 string) {
	routes := routeNames(cfg.dialect)
	loadRoute := func(r string) (*sqlize.Sqlize, string) {
		z := cfg.newSqlize()
		plain := sqlStyle{dialect: cfg.dialect}
		var e string
		switch r {
		case "canonical":
			e = load(z, cfg, plain, s.script())
		case "grouped":
			e = load(z, cfg, plain, s.scriptGrouped())
		case "per-statement":
			e = loadCalls(z, plain, perStmt(s.scriptGrouped()))
		case "random-spelling":
			e = load(z, cfg, sqlStyle{dialect: cfg.dialect, rng: c.rng}, s.scriptGrouped())
		case "own-dump":
			t := cfg.newSqlize()
			e = load(t, cfg, plain, s.scriptGrouped())
			dump := guard(func() string { return t.StringUp() })
			if cfg.dialect == "sqlite3" {
				e = guard(func() string {
					for _, part := range strings.Split(dump, ";") {
						if strings.TrimSpace(part) == "" {
							continue
						}
						if err := z.FromString(part + ";"); err != nil {
							return "error:" + firstLine(err.Error())
						}
					}
					return "ok"
				})
			} else {
				e = guard(func() string {
					if err := z.FromString(dump); err != nil {
						return "error:" + firstLine(err.Error())
					}
					return "ok"
				})
			}
		case "explicit-using-btree":
			ss := s.scriptGrouped()
			for i := range ss {
				if ss[i].Kind == "createIndex" && ss[i].Using == "" { // the default index type, spelled out
					ss[i].Using = "BTREE"
				}
			}
			e = load(z, cfg, plain, ss)
		case "table-level-pk":
			ss, _ := tableLevelPk(s.scriptGrouped())
			e = load(z, cfg, plain, ss)
		case "pk-in-create-table": // a key the schema declares with ALTER TABLE … ADD PRIMARY KEY, written as a table
			// constraint `PRIMARY KEY (…)` inside CREATE TABLE instead (seeded change C03-p)
			ss := s.scriptGrouped()
			var out []Stmt
			for _, st := range ss {
				if st.Kind == "addPk" {
					folded := false
					for k := range out {
						if out[k].Kind == "createTable" && out[k].T == st.T && len(out[k].Pk) == 0 {
							out[k].Pk = st.Pk
							folded = true
						}
					}
					if folded {
						continue
					}
				}
				out = append(out, st)
			}
			e = load(z, cfg, plain, out)
		case "inline-keys-using-btree": // the way mysqldump prints the default index type (seeded change C03-g)
			e = guard(func() string {
				if err := z.FromString(plain.scriptInlineKeysUsing(s.scriptGrouped(), " USING BTREE")); err != nil {
					return "error:" + firstLine(err.Error())
				}
				return "ok"
			})
		case "alter-column-type": // postgres: every column whose names the parser does not quote is created with another
			// type and brought to its type by ALTER COLUMN … TYPE (seeded change C03-h)
			p := s.clone()
			var alters []Stmt
			for _, t := range p.Tables {
				if pgQuotedName(t.Name) {
					continue
				}
				for k := range t.Cols {
					if pgQuotedName(t.Cols[k].Name) {
						continue
					}
					want := t.Cols[k].Typ
					other := pgSibling(want)
					if other == want {
						continue
					}
					t.Cols[k].Typ = other
					alters = append(alters, Stmt{Kind: "alterType", T: t.Name, A: t.Cols[k].Name, B: want})
				}
			}
			e = load(z, cfg, plain, append(p.scriptGrouped(), alters...))
		case "reversed-options": // every column's options written in the opposite order (seeded change C03-s); a fixed
			// route of the witness below, not drawn at random
			p := s.clone()
			for _, t := range p.Tables {
				for k := range t.Cols {
					o := append([]Opt(nil), t.Cols[k].Opts...)
					for i, j := 0, len(o)-1; i < j; i, j = i+1, j-1 {
						o[i], o[j] = o[j], o[i]
					}
					t.Cols[k].Opts = o
				}
			}
			e = load(z, cfg, plain, p.scriptGrouped())
		case "inline-keys":
			e = guard(func() string {
				if err := z.FromString(plain.scriptInlineKeys(s.scriptGrouped())); err != nil {
					return "error:" + firstLine(err.Error())
				}
				return "ok"
			})
		}
		return z, e
	}
	r1, r2 := fix1, fix2
	if fix1 == "" {
		r1 = routes[c.rng.Intn(len(routes))]
		r2 = routes[c.rng.Intn(len(routes))]
	}
	a, e1 := loadRoute(r1)
	b, e2 := loadRoute(r2)
	ed := guard(func() string { b.Diff(*a); return "ok" })
	up := guard(func() string { return b.StringUp() })
	down := guard(func() string { return b.StringDown() })
	c.emit(id, "routes", cfg.sexp(), q(r1), q(r2), stmtsSexp(s.scriptGrouped()), q(e1+","+e2+","+ed), q(up), q(down))
	c.count("route_" + r1)
	c.count("route_" + r2)
}

func suitePair(c *ctx) {
	n := 1500
	if c.tier == "thorough" {
		n = 12000
	}
	if c.n > 0 {
		n = c.n
	}
	runWitnesses(c)
	// a fixed schema by every ordered pair of routes (C03-a, C03-d: several inline keys, a USING HASH index, an inline
	// primary key, two tables)
	{
		ws := &gSchema{Tables: []*gTable{
			{Name: "t", Cols: []ColDef{{Name: "id", Typ: "int(11)", Opts: []Opt{{Kind: "notnull"}, {Kind: "pk"}}}, {Name: "email", Typ: "varchar(64)"}, {Name: "name", Typ: "varchar(64)", Opts: []Opt{{Kind: "notnull"}}}, {Name: "n", Typ: "int(11)"}},
				Idx: []gIndex{{Name: "idx_email", Cols: []string{"email"}, Unique: true}, {Name: "idx_name", Cols: []string{"name"}}, {Name: "idx_n", Cols: []string{"n", "name"}, Using: "HASH"}}},
			{Name: "u", Cols: []ColDef{{Name: "x", Typ: "int(11)"}, {Name: "y", Typ: "int(11)"}}, Idx: []gIndex{{Name: "idx_y", Cols: []string{"y"}}}}}}
		rn := routeNames("mysql")
		k := 0
		for _, r1 := range rn {
			for _, r2 := range rn {
				if r1 != r2 {
					runRoutesFixed(c, fmt.Sprintf("wrt%d", k), runCfg{dialect: "mysql", lower: k%2 == 0}, ws, r1, r2)
					k++
				}
			}
		}
		// C03-p: a composite key declared at table level, by ALTER TABLE and inside CREATE TABLE, against the other routes
		kws := &gSchema{Tables: []*gTable{
			{Name: "m", Cols: []ColDef{{Name: "a", Typ: "int(11)", Opts: []Opt{{Kind: "notnull"}}}, {Name: "b", Typ: "int(11)", Opts: []Opt{{Kind: "notnull"}}}, {Name: "c", Typ: "text"}},
				Pk: []string{"a", "b"}, Idx: []gIndex{{Name: "idx_c_b", Cols: []string{"b"}}}},
			{Name: "u", Cols: []ColDef{{Name: "x", Typ: "int(11)"}}}}}
		for i, pr := range [][2]string{{"pk-in-create-table", "grouped"}, {"grouped", "pk-in-create-table"}, {"pk-in-create-table", "own-dump"}, {"own-dump", "pk-in-create-table"}, {"per-statement", "pk-in-create-table"}} {
			runRoutesFixed(c, fmt.Sprintf("wrtpk%d", i), runCfg{dialect: "mysql", lower: i%2 == 0}, kws, pr[0], pr[1])
		}
		// C03-s: columns with several expression-carrying options (DEFAULT, COMMENT), the options written in either order
		ows := &gSchema{Tables: []*gTable{
			{Name: "ticket", Cols: []ColDef{
				{Name: "id", Typ: "int(11)", Opts: []Opt{{Kind: "notnull"}}},
				{Name: "status", Typ: "varchar(64)", Opts: []Opt{{Kind: "notnull"}, {Kind: "default", DTag: "str", Val: "n/a"}, {Kind: "comment", Val: "x"}}},
				{Name: "n", Typ: "int(11)", Opts: []Opt{{Kind: "default", DTag: "num", Val: "0"}, {Kind: "comment", Val: "how many"}}},
				{Name: "at", Typ: "datetime", Opts: []Opt{{Kind: "default", DTag: "now"}, {Kind: "comment", Val: "a PRIMARY KEY b"}, {Kind: "notnull"}}}}}}}
		for i, pr := range [][2]string{{"grouped", "reversed-options"}, {"reversed-options", "grouped"}, {"reversed-options", "own-dump"}, {"per-statement", "reversed-options"}} {
			runRoutesFixed(c, fmt.Sprintf("wrtopt%d", i), runCfg{dialect: "mysql", lower: i%2 == 0}, ows, pr[0], pr[1])
		}
		// postgres, an option-free schema (inside the reader's fragment): written directly and through ALTER COLUMN … TYPE
		// within the type family (C03-h)
		pws := &gSchema{Tables: []*gTable{
			{Name: "account", Cols: []ColDef{{Name: "id", Typ: "INT8"}, {Name: "label", Typ: "VARCHAR(64)"}, {Name: "amount", Typ: "DECIMAL(12,4)"}, {Name: "note", Typ: "STRING"}}},
			{Name: "audit", Cols: []ColDef{{Name: "n", Typ: "INT4"}, {Name: "at", Typ: "TIMESTAMP"}}}}}
		for i, pr := range [][2]string{{"grouped", "alter-column-type"}, {"alter-column-type", "grouped"}, {"per-statement", "alter-column-type"}, {"alter-column-type", "random-spelling"}} {
			runRoutesFixed(c, fmt.Sprintf("wrtpg%d", i), runCfg{dialect: "postgres", lower: i%2 == 0}, pws, pr[0], pr[1])
		}
	}
	for i := 0; i < n; i++ {
		dialect := []string{"mysql", "mysql", "mysql", "postgres", "sqlite3"}[c.rng.Intn(5)]
		if c.dialect != "" {
			dialect = c.dialect
		}
		cfg := runCfg{dialect: dialect, lower: c.rng.Intn(2) == 0, ignore: c.rng.Intn(4) == 0}
		g := &gen{rng: c.rng, dialect: dialect}
		so := schemaOpts{maxTables: 1 + c.rng.Intn(3), maxCols: 1 + c.rng.Intn(5), indexes: c.rng.Intn(3) != 0, fks: c.rng.Intn(2) == 0}
		old := g.schema(so)
		mo := mutateOpts{schemaOpts: so, edits: c.rng.Intn(6), retype: true, reopt: true, redefineIndex: true, dropTables: true}
		nw := g.mutate(old, mo, c)
		style := sqlStyle{dialect: dialect}
		if c.rng.Intn(2) == 0 {
			style.rng = c.rng
		}
		c.count("dialect_" + dialect)
		os, ns := old.script(), nw.script()
		if dialect != "mysql" || c.rng.Intn(2) == 0 {
			// postgres / sqlite readers attach CREATE INDEX to the table of the previous statement: use the grouped route
			os, ns = old.scriptGrouped(), nw.scriptGrouped()
			c.count("route_grouped")
		}
		// a side written as a history: a column first created with another definition, then MODIFY COLUMN to the final
		// one (MySQL: the only dialect whose reader understands MODIFY COLUMN)
		if dialect == "mysql" && c.rng.Intn(3) == 0 {
			os = withModifyDetour(c, g, os)
			c.count("route_modify_detour_old")
		}
		if dialect == "mysql" && c.rng.Intn(3) == 0 {
			ns = withModifyDetour(c, g, ns)
			c.count("route_modify_detour_new")
		}
		runPair(c, fmt.Sprintf("p%d", i), cfg, os, ns, style)
		if i%3 == 0 {
			runRoutes(c, fmt.Sprintf("rt%d", i), cfg, old)
		}
	}
}

// withModifyDetour rewrites one non-key column of one CREATE TABLE to a variant definition (other options: comment,
// default, nullability) and appends ALTER TABLE … MODIFY COLUMN with the original definition: the same final schema,
// reached in two steps.
func withModifyDetour(c *ctx, g *gen, ss []Stmt) []Stmt {
	out := append([]Stmt{}, ss...)
	var cand [][2]int
	for i, s := range out {
		if s.Kind != "createTable" {
			continue
		}
		for j, col := range s.Cols {
			key := false
			for _, o := range col.Opts {
				if o.Kind == "pk" || o.Kind == "autoinc" {
					key = true
				}
			}
			for _, pk := range s.Pk {
				if pk == col.Name {
					key = true
				}
			}
			if !key {
				cand = append(cand, [2]int{i, j})
			}
		}
	}
	if len(cand) == 0 {
		return out
	}
	pick := cand[c.rng.Intn(len(cand))]
	st := out[pick[0]]
	final := st.Cols[pick[1]]
	cols := append([]ColDef{}, st.Cols...)
	variant := ColDef{Name: final.Name, Typ: final.Typ}
	switch c.rng.Intn(3) {
	case 0:
		variant.Opts = []Opt{{Kind: "comment", Val: "draft"}}
	case 1:
		variant.Opts = g.opts(final.Typ)
	default:
		// same definition: MODIFY COLUMN to itself
		variant.Opts = append([]Opt{}, final.Opts...)
	}
	cols[pick[1]] = variant
	st.Cols = cols
	out[pick[0]] = st
	out = append(out, Stmt{Kind: "modifyColumn", T: st.T, Col: final})
	return out
}

// style0 is the canonical (non-random) spelling of a style, so that auxiliary loads do not consume PRNG state
func style0(st sqlStyle) sqlStyle { return sqlStyle{dialect: st.dialect} }
