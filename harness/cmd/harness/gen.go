package main

import (
	"fmt"
	"strings"
	"math/rand"
)

// Generators of schemas, schema pairs and DDL scripts over the property vocabulary.  All choices come from one PRNG.

var tablePool = []string{"users", "orders", "items", "t1", "select", "order", "group", "accounts"}
var colPool = []string{"id", "name", "a", "b", "c", "d", "e", "x", "y", "desc", "index", "created_at", "user_id", "qty", "key"}

// MySQL only: names with upper-case letters (sqlize keeps identifiers as written; the Postgres parser folds bare
// identifiers and prints the others with quotes, the recorded finding `postgres-quoted-identifiers`)
var colPoolMysql = append(append([]string{}, colPool...), "userName", "OrderNo")

func (g *gen) colNames() []string {
	if g.dialect == "mysql" {
		return colPoolMysql
	}
	return colPool
}

type gen struct {
	rng     *rand.Rand
	dialect string
	// feature switches (regions that are known findings can be switched off per suite)
	noDefaults bool
	noComments bool
}

func (g *gen) pick(ss []string) string { return ss[g.rng.Intn(len(ss))] }

func (g *gen) typ() string { return g.pick(typesOf(g.dialect)) }

func isIntType(t string) bool {
	switch t {
	case "int(11)", "bigint(20)", "smallint(6)", "INT8", "INT4", "INT2", "INTEGER":
		return true
	}
	return false
}

func isTextual(t string) bool {
	switch t {
	case "varchar(64)", "varchar(255)", "char(3)", "text", "longtext", "STRING", "VARCHAR(64)", "TEXT":
		return true
	}
	return false
}

// random option list for a (non-pk) column, in the order a DDL author would write them
func (g *gen) opts(typ string) []Opt {
	var os []Opt
	switch g.rng.Intn(4) {
	case 0:
		os = append(os, Opt{Kind: "notnull"})
	case 1:
		if g.dialect == "mysql" {
			os = append(os, Opt{Kind: "null"})
		}
	}
	if !g.noDefaults && g.rng.Intn(3) == 0 {
		switch {
		case isIntType(typ) || typ == "tinyint(4)" || typ == "tinyint(1)" || typ == "double" || typ == "float" || strings.HasPrefix(typ, "decimal"):
			os = append(os, Opt{Kind: "default", DTag: "num", Val: fmt.Sprint(g.rng.Intn(100))})
		case (typ == "varchar(64)" || typ == "varchar(255)" || typ == "char(3)" || typ == "VARCHAR(64)") && g.dialect == "mysql":
			os = append(os, Opt{Kind: "default", DTag: "str", Val: g.pick([]string{"x", "it's", "", "A b"})})
		case typ == "datetime" || typ == "timestamp":
			os = append(os, Opt{Kind: "default", DTag: "now"})
		default:
			if g.dialect == "mysql" && (len(os) == 0 || os[0].Kind != "notnull") {
				os = append(os, Opt{Kind: "default", DTag: "null"})
			}
		}
	}
	// an inline UNIQUE option (kept as a column option by the reader, printed back as UNIQUE KEY)
	if g.dialect == "mysql" && g.rng.Intn(12) == 0 {
		os = append(os, Opt{Kind: "uniq"})
	}
	if !g.noComments && g.dialect == "mysql" && g.rng.Intn(5) == 0 {
		os = append(os, Opt{Kind: "comment", Val: g.pick([]string{"note", "the key", "it's", "PRIMARY KEY of x", "the primary key", "a PRIMARY KEY b"})})
	}
	return os
}

func (g *gen) freshName(pool []string, used func(string) bool, prefix string) string {
	for tries := 0; tries < 20; tries++ {
		n := g.pick(pool)
		if !used(n) {
			return n
		}
	}
	for i := 0; ; i++ {
		n := fmt.Sprintf("%s%d", prefix, i)
		if !used(n) {
			return n
		}
	}
}

func (g *gen) newColumn(t *gTable) ColDef {
	name := g.freshName(g.colNames(), func(n string) bool { return t.colIndex(n) >= 0 }, "col")
	typ := g.typ()
	return ColDef{Name: name, Typ: typ, Opts: g.opts(typ)}
}

func (g *gen) newTable(s *gSchema, maxCols int) *gTable {
	name := g.freshName(tablePool, func(n string) bool { return s.table(n) != nil }, "tbl")
	t := &gTable{Name: name}
	n := 1 + g.rng.Intn(maxCols)
	withID := g.rng.Intn(3) != 0
	for i := 0; i < n; i++ {
		if i == 0 && withID {
			intT := "int(11)"
			switch g.dialect {
			case "postgres":
				intT = "INT8"
			case "sqlite3":
				intT = "INTEGER"
			}
			c := ColDef{Name: "id", Typ: intT}
			// MySQL: the key is written inline for half of the tables, at table level (PRIMARY KEY (id), printed as
			// ALTER TABLE ... ADD PRIMARY KEY by the harness) for three tenths, and left out for the rest
			keyRoll := g.rng.Intn(10)
			if g.dialect == "mysql" && keyRoll >= 5 && keyRoll < 8 {
				c.Opts = []Opt{{Kind: "notnull"}}
				t.Pk = []string{"id"}
				t.Cols = append(t.Cols, c)
				continue
			}
			if (g.dialect == "mysql" && keyRoll < 5) || (g.dialect != "mysql" && keyRoll < 7) { // inline primary key
				if g.dialect == "mysql" {
					c.Opts = []Opt{{Kind: "notnull"}}
					if g.rng.Intn(2) == 0 {
						c.Opts = append(c.Opts, Opt{Kind: "autoinc"})
					}
				}
				c.Opts = append(c.Opts, Opt{Kind: "pk"})
				// the key option is not always the last one written (seeded change C01-h): sometimes it moves to another
				// place of the list, sometimes a comment follows it
				if g.dialect == "mysql" && g.rng.Intn(4) == 0 && len(c.Opts) > 1 {
					k := g.rng.Intn(len(c.Opts) - 1)
					c.Opts[k], c.Opts[len(c.Opts)-1] = c.Opts[len(c.Opts)-1], c.Opts[k]
				}
				if g.dialect == "mysql" && !g.noComments && g.rng.Intn(6) == 0 {
					c.Opts = append(c.Opts, Opt{Kind: "comment", Val: "row id"})
				}
			}
			t.Cols = append(t.Cols, c)
			continue
		}
		t.Cols = append(t.Cols, g.newColumn(t))
	}
	return t
}

func (g *gen) idxName(t *gTable) string {
	for i := 0; ; i++ {
		n := fmt.Sprintf("idx_%s_%d", t.Name, i)
		ok := true
		for _, x := range t.Idx {
			if x.Name == n {
				ok = false
			}
		}
		if ok {
			return n
		}
	}
}

func (g *gen) newIndex(t *gTable) (gIndex, bool) {
	// candidate columns: not text/json/blob (MySQL would need a prefix length)
	var cand []string
	for _, c := range t.Cols {
		if c.Typ != "text" && c.Typ != "longtext" && c.Typ != "json" && c.Typ != "BLOB" {
			cand = append(cand, c.Name)
		}
	}
	if len(cand) == 0 {
		return gIndex{}, false
	}
	g.rng.Shuffle(len(cand), func(i, j int) { cand[i], cand[j] = cand[j], cand[i] })
	n := 1
	if len(cand) > 1 && g.rng.Intn(3) == 0 {
		n = 2
	}
	ix := gIndex{Name: g.idxName(t), Cols: append([]string{}, cand[:n]...), Unique: g.rng.Intn(3) == 0}
	if g.dialect == "mysql" && g.rng.Intn(4) == 0 {
		ix.Using = g.pick([]string{"BTREE", "HASH"}) // only the MySQL grammar of sqlize's readers accepts USING
	}
	return ix, true
}

func (g *gen) newFk(s *gSchema, t *gTable) (gFk, bool) {
	// reference another table's first column when it is an integer; local column: an integer column not yet used by a fk
	var targets []*gTable
	for _, o := range s.Tables {
		if o != t && len(o.Cols) > 0 && isIntType(o.Cols[0].Typ) {
			targets = append(targets, o)
		}
	}
	if len(targets) == 0 {
		return gFk{}, false
	}
	rt := targets[g.rng.Intn(len(targets))]
	for _, c := range t.Cols {
		if !isIntType(c.Typ) {
			continue
		}
		used := false
		for _, f := range t.Fks {
			if f.Col == c.Name {
				used = true
			}
		}
		if used {
			continue
		}
		name := fmt.Sprintf("fk_%s_%s", rt.Name, t.Name)
		for _, f := range t.Fks {
			if f.Name == name {
				name = fmt.Sprintf("fk_%s_%s_%s", rt.Name, t.Name, c.Name)
			}
		}
		return gFk{Name: name, Col: c.Name, RT: rt.Name, RC: rt.Cols[0].Name}, true
	}
	return gFk{}, false
}

type schemaOpts struct {
	maxTables, maxCols int
	indexes, fks       bool
}

func (g *gen) schema(o schemaOpts) *gSchema {
	s := &gSchema{}
	n := g.rng.Intn(o.maxTables + 1)
	for i := 0; i < n; i++ {
		s.Tables = append(s.Tables, g.newTable(s, o.maxCols))
	}
	for _, t := range s.Tables {
		if o.indexes {
			for k := g.rng.Intn(3); k > 0; k-- {
				if ix, ok := g.newIndex(t); ok {
					t.Idx = append(t.Idx, ix)
				}
			}
		}
		if o.fks && g.rng.Intn(2) == 0 {
			if fk, ok := g.newFk(s, t); ok {
				t.Fks = append(t.Fks, fk)
			}
		}
	}
	return s
}

// dropColumnFromSchema removes a column the way a MySQL database would: indexes lose it (and vanish when empty),
// foreign keys on it vanish, table-level pk loses it.
func dropColumnFromTable(t *gTable, name string) {
	i := t.colIndex(name)
	if i < 0 {
		return
	}
	t.Cols = append(append([]ColDef{}, t.Cols[:i]...), t.Cols[i+1:]...)
	var idx []gIndex
	for _, ix := range t.Idx {
		var cs []string
		for _, c := range ix.Cols {
			if c != name {
				cs = append(cs, c)
			}
		}
		if len(cs) > 0 {
			ix.Cols = cs
			idx = append(idx, ix)
		}
	}
	t.Idx = idx
	var fks []gFk
	for _, f := range t.Fks {
		if f.Col != name {
			fks = append(fks, f)
		}
	}
	t.Fks = fks
	var pk []string
	for _, c := range t.Pk {
		if c != name {
			pk = append(pk, c)
		}
	}
	t.Pk = pk
}

func (s *gSchema) referenced(table, col string) bool {
	for _, t := range s.Tables {
		for _, f := range t.Fks {
			if f.RT == table && (col == "" || f.RC == col) {
				return true
			}
		}
	}
	return false
}

type mutateOpts struct {
	schemaOpts
	edits         int
	retype, reopt bool
	redefineIndex bool
	dropTables    bool
}

// mutate returns a changed copy of s; columns present on both sides keep their relative order.
func (g *gen) mutate(s *gSchema, o mutateOpts, c *ctx) *gSchema {
	n := s.clone()
	for e := 0; e < o.edits; e++ {
		if len(n.Tables) == 0 || g.rng.Intn(12) == 0 {
			if len(n.Tables) < o.maxTables+1 {
				// a fresh name on both sides: re-creating a dropped table would make an unrelated column order
				both := &gSchema{Tables: append(append([]*gTable{}, n.Tables...), s.Tables...)}
				nt := g.newTable(both, o.maxCols)
				n.Tables = append(n.Tables, nt)
				c.count("edit_add_table")
			}
			continue
		}
		t := n.Tables[g.rng.Intn(len(n.Tables))]
		switch k := g.rng.Intn(14); {
		case k < 4: // add a column at a random position
			col := g.newColumn(t)
			// never re-use a name the old table had (that would be a retype, generated elsewhere)
			if ot := s.table(t.Name); ot != nil && ot.colIndex(col.Name) >= 0 {
				continue
			}
			p := g.rng.Intn(len(t.Cols) + 1)
			t.Cols = append(t.Cols[:p], append([]ColDef{col}, t.Cols[p:]...)...)
			switch {
			case p == 0:
				c.count("edit_add_col_first")
			case p == len(t.Cols)-1:
				c.count("edit_add_col_last")
			default:
				c.count("edit_add_col_middle")
			}
		case k < 7: // drop a column
			if len(t.Cols) <= 1 {
				continue
			}
			p := g.rng.Intn(len(t.Cols))
			name := t.Cols[p].Name
			if n.referenced(t.Name, name) {
				continue
			}
			isPk := false
			for _, op := range t.Cols[p].Opts {
				if op.Kind == "pk" {
					isPk = true
				}
			}
			if isPk {
				continue
			}
			dropColumnFromTable(t, name)
			c.count("edit_drop_col")
		case k < 8 && o.retype: // retype
			p := g.rng.Intn(len(t.Cols))
			if t.Cols[p].Name == "id" || n.referenced(t.Name, t.Cols[p].Name) {
				continue
			}
			isFkCol := false
			for _, f := range t.Fks {
				if f.Col == t.Cols[p].Name {
					isFkCol = true
				}
			}
			if isFkCol {
				continue
			}
			nt := g.typ()
			if nt != t.Cols[p].Typ {
				t.Cols[p].Typ = nt
				t.Cols[p].Opts = g.opts(nt)
				// an index may not like the new type
				if nt == "text" || nt == "longtext" || nt == "json" {
					var idx []gIndex
					for _, ix := range t.Idx {
						keep := true
						for _, cn := range ix.Cols {
							if cn == t.Cols[p].Name {
								keep = false
							}
						}
						if keep {
							idx = append(idx, ix)
						}
					}
					t.Idx = idx
				}
				c.count("edit_retype")
			}
		case k < 9 && o.reopt: // different option kinds
			p := g.rng.Intn(len(t.Cols))
			if t.Cols[p].Name == "id" {
				continue
			}
			t.Cols[p].Opts = g.opts(t.Cols[p].Typ)
			c.count("edit_reopt")
		case k < 10 && o.indexes: // add index
			if ix, ok := g.newIndex(t); ok {
				t.Idx = append(t.Idx, ix)
				c.count("edit_add_index")
			}
		case k < 11 && o.indexes: // drop / redefine index
			if len(t.Idx) == 0 {
				continue
			}
			p := g.rng.Intn(len(t.Idx))
			if o.redefineIndex && g.rng.Intn(2) == 0 {
				if ix, ok := g.newIndex(t); ok {
					ix.Name = t.Idx[p].Name
					t.Idx[p] = ix
					c.count("edit_redefine_index")
				}
			} else {
				t.Idx = append(t.Idx[:p], t.Idx[p+1:]...)
				c.count("edit_drop_index")
			}
		case k < 12 && o.fks: // add / drop fk
			if len(t.Fks) > 0 && g.rng.Intn(2) == 0 {
				t.Fks = t.Fks[:len(t.Fks)-1]
				c.count("edit_drop_fk")
			} else if fk, ok := g.newFk(n, t); ok {
				t.Fks = append(t.Fks, fk)
				c.count("edit_add_fk")
			}
		case k < 13 && o.fks && len(t.Fks) > 0 && len(t.Cols) > 1: // drop a column together with the foreign key on it
			cn := t.Fks[g.rng.Intn(len(t.Fks))].Col
			isPk := false
			for _, cc := range t.Cols {
				if cc.Name == cn {
					for _, op := range cc.Opts {
						if op.Kind == "pk" {
							isPk = true
						}
					}
				}
			}
			if isPk || n.referenced(t.Name, cn) {
				continue
			}
			dropColumnFromTable(t, cn)
			c.count("edit_drop_fk_column")
		case k == 13 && o.indexes && g.rng.Intn(2) == 0 && len(n.Tables) > 1: // a column name shared by two tables: dropped from the earlier one, its index dropped in a later one
			done := false
			for bi := 1; bi < len(n.Tables) && !done; bi++ {
				b := n.Tables[bi]
				for ii, ix := range b.Idx {
					if len(ix.Cols) != 1 || done {
						continue
					}
					cn := ix.Cols[0]
					for ai := 0; ai < bi && !done; ai++ {
						a := n.Tables[ai]
						if a.colIndex(cn) < 0 || len(a.Cols) <= 1 || n.referenced(a.Name, cn) {
							continue
						}
						isKey := false
						for _, cc := range a.Cols {
							if cc.Name == cn {
								for _, op := range cc.Opts {
									if op.Kind == "pk" {
										isKey = true
									}
								}
							}
						}
						for _, pk := range a.Pk {
							if pk == cn {
								isKey = true
							}
						}
						if isKey {
							continue
						}
						dropColumnFromTable(a, cn)
						b.Idx = append(append([]gIndex{}, b.Idx[:ii]...), b.Idx[ii+1:]...)
						done = true
						c.count("edit_cross_table_twin")
					}
				}
			}
		case k == 13 && o.indexes && o.redefineIndex && len(t.Idx) > 0: // an index keeps its name, moves to another column, and all its old columns are dropped
			p := g.rng.Intn(len(t.Idx))
			ix := t.Idx[p]
			inIx := map[string]bool{}
			for _, cn := range ix.Cols {
				inIx[cn] = true
			}
			var cand []string
			for _, cc := range t.Cols {
				if !inIx[cc.Name] && cc.Typ != "text" && cc.Typ != "longtext" && cc.Typ != "json" && cc.Typ != "BLOB" {
					cand = append(cand, cc.Name)
				}
			}
			droppable := len(cand) > 0
			for _, cn := range ix.Cols {
				if n.referenced(t.Name, cn) {
					droppable = false
				}
				for _, pk := range t.Pk {
					if pk == cn {
						droppable = false
					}
				}
				for _, cc := range t.Cols {
					if cc.Name == cn {
						for _, op := range cc.Opts {
							if op.Kind == "pk" {
								droppable = false
							}
						}
					}
				}
			}
			if !droppable {
				continue
			}
			for _, cn := range ix.Cols {
				dropColumnFromTable(t, cn)
			}
			t.Idx = append(t.Idx, gIndex{Name: ix.Name, Cols: []string{cand[g.rng.Intn(len(cand))]}, Unique: ix.Unique, Using: ix.Using})
			c.count("edit_move_index")
		case k < 13 && o.dropTables: // drop table
			if n.referenced(t.Name, "") {
				continue
			}
			for i := range n.Tables {
				if n.Tables[i] == t {
					n.Tables = append(n.Tables[:i], n.Tables[i+1:]...)
					break
				}
			}
			c.count("edit_drop_table")
		}
	}
	return n
}
