package main

import (
	"fmt"
	"os"

	"github.com/sunary/sqlize"
)

func main() {
	s := sqlize.NewSqlize()
	err := s.FromString(os.Args[1])
	fmt.Println("err:", err)
	for _, a := range s.ArvoSchema() {
		fmt.Println(a)
	}
	fmt.Printf("%q\n", s.MermaidJsErd())
	fmt.Println(s.MermaidJsLive())
}
