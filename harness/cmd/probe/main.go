package main

import (
	"fmt"
	"os"

	"github.com/sunary/sqlize"
)

func main() {
	s := sqlize.NewSqlize()
	for _, a := range os.Args[1:] {
		func() {
			defer func() {
				if r := recover(); r != nil {
					fmt.Println("PANIC:", r)
				}
			}()
			err := s.FromString(a)
			fmt.Println("err:", err)
		}()
	}
	fmt.Println(s.StringUp())
}
