package main

// translate.go — a tiny Go → Lean translator for the pure string helpers of utils/str.go (ToSnakeCase, nextIsLower,
// isDigit, isLowercase, isUppercase).  The output, lean/SqlizeModel/Generated/StrGo.lean, is regenerated on every run
// and proved equal to the hand-written model (Props/TieStrGo.lean: `translated_is_model`), so the theorems about the
// model are re-checked against what the code says now.
//
// Conventions (the translator's part of the trusted base): runes and bytes are natural numbers (code points), a string
// is the list of its code points (ASCII input: byte index = rune index), `byte(x)` is `x % 256`, `rune(x)` is `x`, an
// `int` that is only counted up from 0 or compared is a `Nat`, `strings.Builder` is the list of the bytes written so
// far.  A function without a loop becomes nested `let` / `if … then … else`; a function with one
// `for i, c := range input` loop becomes a fold of a body function over the input, whose state is the locals declared
// before the loop plus the index.  Any syntactic form outside this fragment is refused (the tie is then reported as broken).

import (
	"fmt"
	"go/ast"
	"go/parser"
	"go/token"
	"path/filepath"
	"strconv"
	"strings"
)

type trCtx struct {
	state map[string]bool // locals that live in the fold state (referred to as st.<name>)
}

func trFail(n ast.Node, fset *token.FileSet, what string) error {
	return fmt.Errorf("translate: %s: unsupported %s (%T)", fset.Position(n.Pos()), what, n)
}

func atomic(s string) bool {
	return !strings.ContainsAny(s, " ")
}

func paren(s string) string {
	if atomic(s) || (strings.HasPrefix(s, "(") && strings.HasSuffix(s, ")") && balanced(s[1:len(s)-1])) {
		return s
	}
	return "(" + s + ")"
}

func balanced(s string) bool {
	d := 0
	for _, r := range s {
		if r == '(' {
			d++
		} else if r == ')' {
			d--
			if d < 0 {
				return false
			}
		}
	}
	return d == 0
}

func (c *trCtx) expr(e ast.Expr, fset *token.FileSet) (string, error) {
	switch x := e.(type) {
	case *ast.BasicLit:
		switch x.Kind {
		case token.CHAR:
			r, _, _, err := strconv.UnquoteChar(x.Value[1:len(x.Value)-1], '\'')
			if err != nil {
				return "", trFail(e, fset, "character literal")
			}
			return strconv.Itoa(int(r)), nil
		case token.INT:
			return x.Value, nil
		}
		return "", trFail(e, fset, "literal")
	case *ast.Ident:
		if x.Name == "true" || x.Name == "false" {
			return x.Name, nil
		}
		if c.state[x.Name] {
			return "st." + x.Name, nil
		}
		return x.Name, nil
	case *ast.ParenExpr:
		s, err := c.expr(x.X, fset)
		if err != nil {
			return "", err
		}
		return paren(s), nil
	case *ast.BinaryExpr:
		l, err := c.expr(x.X, fset)
		if err != nil {
			return "", err
		}
		r, err := c.expr(x.Y, fset)
		if err != nil {
			return "", err
		}
		switch x.Op {
		case token.LAND:
			return "(" + l + " && " + r + ")", nil
		case token.LOR:
			return "(" + l + " || " + r + ")", nil
		case token.GEQ:
			return "decide (" + l + " ≥ " + r + ")", nil
		case token.LEQ:
			return "decide (" + l + " ≤ " + r + ")", nil
		case token.GTR:
			return "decide (" + l + " > " + r + ")", nil
		case token.LSS:
			return "decide (" + l + " < " + r + ")", nil
		case token.EQL:
			return "decide (" + l + " = " + r + ")", nil
		case token.NEQ:
			return "decide (" + l + " ≠ " + r + ")", nil
		case token.ADD, token.SUB:
			op := " + "
			if x.Op == token.SUB {
				op = " - "
			}
			// left-associative chains stay flat, a compound right operand is parenthesised
			if _, ok := x.Y.(*ast.BinaryExpr); ok {
				r = paren(r)
			}
			return l + op + r, nil
		}
		return "", trFail(e, fset, "operator "+x.Op.String())
	case *ast.IndexExpr:
		a, err := c.expr(x.X, fset)
		if err != nil {
			return "", err
		}
		i, err := c.expr(x.Index, fset)
		if err != nil {
			return "", err
		}
		return a + ".getD " + paren(i) + " 0", nil
	case *ast.CallExpr:
		fn, ok := x.Fun.(*ast.Ident)
		if !ok {
			return "", trFail(e, fset, "call")
		}
		args := []string{}
		for _, a := range x.Args {
			s, err := c.expr(a, fset)
			if err != nil {
				return "", err
			}
			args = append(args, s)
		}
		switch fn.Name {
		case "len":
			return paren(args[0]) + ".length", nil
		case "rune":
			return args[0], nil
		case "byte":
			return paren(args[0]) + " % 256", nil
		}
		for i := range args {
			args[i] = paren(args[i])
		}
		return fn.Name + " " + strings.Join(args, " "), nil
	}
	return "", trFail(e, fset, "expression")
}

func leanType(e ast.Expr) (string, bool) {
	switch x := e.(type) {
	case *ast.Ident:
		switch x.Name {
		case "rune", "byte", "int":
			return "Nat", true
		case "string":
			return "List Nat", true
		case "bool":
			return "Bool", true
		}
	case *ast.SelectorExpr:
		if p, ok := x.X.(*ast.Ident); ok && p.Name == "strings" && x.Sel.Name == "Builder" {
			return "List Nat", true
		}
	}
	return "", false
}

// straight-line function: i++ on a parameter, guarded early returns, short declarations, a final return
func (c *trCtx) simpleBody(stmts []ast.Stmt, fset *token.FileSet) ([]string, error) {
	out := []string{}
	for k, s := range stmts {
		switch x := s.(type) {
		case *ast.IncDecStmt:
			id, ok := x.X.(*ast.Ident)
			if !ok || x.Tok != token.INC {
				return nil, trFail(s, fset, "increment")
			}
			out = append(out, "  let "+id.Name+" := "+id.Name+" + 1")
		case *ast.AssignStmt:
			if x.Tok != token.DEFINE || len(x.Lhs) != 1 || len(x.Rhs) != 1 {
				return nil, trFail(s, fset, "assignment")
			}
			id, ok := x.Lhs[0].(*ast.Ident)
			if !ok {
				return nil, trFail(s, fset, "assignment target")
			}
			r, err := c.expr(x.Rhs[0], fset)
			if err != nil {
				return nil, err
			}
			out = append(out, "  let "+id.Name+" := "+r)
		case *ast.IfStmt:
			if x.Init != nil || x.Else != nil || len(x.Body.List) != 1 {
				return nil, trFail(s, fset, "if (only `if cond { return e }` is translated here)")
			}
			ret, ok := x.Body.List[0].(*ast.ReturnStmt)
			if !ok || len(ret.Results) != 1 {
				return nil, trFail(s, fset, "if body")
			}
			cond, err := c.expr(x.Cond, fset)
			if err != nil {
				return nil, err
			}
			val, err := c.expr(ret.Results[0], fset)
			if err != nil {
				return nil, err
			}
			out = append(out, "  if "+cond+" then "+val+" else")
		case *ast.ReturnStmt:
			if k != len(stmts)-1 || len(x.Results) != 1 {
				return nil, trFail(s, fset, "return")
			}
			val, err := c.expr(x.Results[0], fset)
			if err != nil {
				return nil, err
			}
			out = append(out, "  "+val)
		default:
			return nil, trFail(s, fset, "statement")
		}
	}
	return out, nil
}

// statements of a loop body, in state-passing style; every statement rebinds `st`
func (c *trCtx) stateBlock(stmts []ast.Stmt, ind string, fset *token.FileSet) ([]string, error) {
	out := []string{}
	for _, s := range stmts {
		ls, err := c.stateStmt(s, ind, fset)
		if err != nil {
			return nil, err
		}
		out = append(out, ls...)
	}
	out = append(out, ind+"st")
	return out, nil
}

func (c *trCtx) stateStmt(s ast.Stmt, ind string, fset *token.FileSet) ([]string, error) {
	switch x := s.(type) {
	case *ast.ExprStmt:
		call, ok := x.X.(*ast.CallExpr)
		if !ok {
			return nil, trFail(s, fset, "expression statement")
		}
		sel, ok := call.Fun.(*ast.SelectorExpr)
		recv, ok2 := sel.X.(*ast.Ident)
		if !ok || !ok2 || sel.Sel.Name != "WriteByte" || !c.state[recv.Name] || len(call.Args) != 1 {
			return nil, trFail(s, fset, "call statement (only <builder>.WriteByte(x))")
		}
		a, err := c.expr(call.Args[0], fset)
		if err != nil {
			return nil, err
		}
		return []string{ind + "let st := { st with " + recv.Name + " := st." + recv.Name + " ++ [" + a + "] }"}, nil
	case *ast.IncDecStmt:
		id, ok := x.X.(*ast.Ident)
		if !ok || x.Tok != token.INC || !c.state[id.Name] {
			return nil, trFail(s, fset, "increment")
		}
		return []string{ind + "let st := { st with " + id.Name + " := st." + id.Name + " + 1 }"}, nil
	case *ast.AssignStmt:
		if (x.Tok != token.ASSIGN && x.Tok != token.ADD_ASSIGN) || len(x.Lhs) != 1 || len(x.Rhs) != 1 {
			return nil, trFail(s, fset, "assignment")
		}
		id, ok := x.Lhs[0].(*ast.Ident)
		if !ok || !c.state[id.Name] {
			return nil, trFail(s, fset, "assignment target")
		}
		r, err := c.expr(x.Rhs[0], fset)
		if err != nil {
			return nil, err
		}
		if x.Tok == token.ADD_ASSIGN {
			// x += e is x = x + e (the counters are non-negative; -= stays refused)
			r = "st." + id.Name + " + (" + r + ")"
		}
		return []string{ind + "let st := { st with " + id.Name + " := " + r + " }"}, nil
	case *ast.IfStmt:
		// if / else if / else chains: one `let st := if … then … else if … then … else …`
		out := []string{ind + "let st :="}
		kw := "  if "
		var cur ast.Stmt = x
		for cur != nil {
			switch y := cur.(type) {
			case *ast.IfStmt:
				if y.Init != nil {
					return nil, trFail(y, fset, "if with init")
				}
				cond, err := c.expr(y.Cond, fset)
				if err != nil {
					return nil, err
				}
				body, err := c.stateBlock(y.Body.List, ind+"    ", fset)
				if err != nil {
					return nil, err
				}
				out = append(out, ind+kw+cond+" then")
				out = append(out, body...)
				kw = "  else if "
				if y.Else == nil {
					out = append(out, ind+"  else st")
					cur = nil
				} else {
					cur = y.Else
				}
			case *ast.BlockStmt:
				body, err := c.stateBlock(y.List, ind+"    ", fset)
				if err != nil {
					return nil, err
				}
				out = append(out, ind+"  else")
				out = append(out, body...)
				cur = nil
			default:
				return nil, trFail(y, fset, "else branch")
			}
		}
		return out, nil
	case *ast.SwitchStmt:
		if x.Init != nil || x.Tag != nil {
			return nil, trFail(s, fset, "switch with tag")
		}
		out := []string{ind + "let st :="}
		first := true
		var deflt *ast.CaseClause
		for _, cc := range x.Body.List {
			cl := cc.(*ast.CaseClause)
			if cl.List == nil {
				deflt = cl
				continue
			}
			// `case a, b:` is `a || b`
			cond := ""
			for k, ce := range cl.List {
				one, err := c.expr(ce, fset)
				if err != nil {
					return nil, err
				}
				if k == 0 {
					cond = one
				} else {
					cond = "(" + cond + " || " + one + ")"
				}
			}
			kw := "  else if "
			if first {
				kw = "  if "
				first = false
			}
			out = append(out, ind+kw+cond+" then")
			body, err := c.stateBlock(cl.Body, ind+"    ", fset)
			if err != nil {
				return nil, err
			}
			out = append(out, body...)
		}
		out = append(out, ind+"  else")
		if deflt != nil {
			body, err := c.stateBlock(deflt.Body, ind+"    ", fset)
			if err != nil {
				return nil, err
			}
			out = append(out, body...)
		} else {
			out = append(out, ind+"    st")
		}
		return out, nil
	}
	return nil, trFail(s, fset, "statement")
}

func translateFunc(fd *ast.FuncDecl, fset *token.FileSet) ([]string, error) {
	if fd.Recv != nil || fd.Type.Results == nil || len(fd.Type.Results.List) != 1 {
		return nil, trFail(fd, fset, "function signature")
	}
	params := []string{}
	for _, f := range fd.Type.Params.List {
		t, ok := leanType(f.Type)
		if !ok {
			return nil, trFail(f, fset, "parameter type")
		}
		for _, n := range f.Names {
			params = append(params, "("+n.Name+" : "+t+")")
		}
	}
	resT, ok := leanType(fd.Type.Results.List[0].Type)
	if !ok {
		return nil, trFail(fd, fset, "result type")
	}
	// a loop function?
	var loop *ast.RangeStmt
	for _, s := range fd.Body.List {
		if r, ok := s.(*ast.RangeStmt); ok {
			if loop != nil {
				return nil, trFail(s, fset, "second loop")
			}
			loop = r
		}
	}
	c := &trCtx{state: map[string]bool{}}
	if loop == nil {
		body, err := c.simpleBody(fd.Body.List, fset)
		if err != nil {
			return nil, err
		}
		out := []string{"def " + fd.Name.Name + " " + strings.Join(params, " ") + " : " + resT + " :="}
		return append(out, body...), nil
	}
	// var declarations, the loop, `return <builder>.String()`
	type sv struct{ name, typ, init string }
	vars := []sv{}
	var retVar string
	for _, s := range fd.Body.List {
		switch x := s.(type) {
		case *ast.DeclStmt:
			gd, ok := x.Decl.(*ast.GenDecl)
			if !ok || gd.Tok != token.VAR {
				return nil, trFail(s, fset, "declaration")
			}
			for _, sp := range gd.Specs {
				vs := sp.(*ast.ValueSpec)
				t, ok := leanType(vs.Type)
				if !ok || len(vs.Values) != 0 {
					return nil, trFail(vs, fset, "variable declaration")
				}
				init := "0"
				if t == "List Nat" {
					init = "[]"
				}
				for _, n := range vs.Names {
					vars = append(vars, sv{n.Name, t, init})
					c.state[n.Name] = true
				}
			}
		case *ast.RangeStmt:
		case *ast.ReturnStmt:
			call, ok := x.Results[0].(*ast.CallExpr)
			if !ok {
				return nil, trFail(s, fset, "return")
			}
			sel, ok := call.Fun.(*ast.SelectorExpr)
			recv, ok2 := sel.X.(*ast.Ident)
			if !ok || !ok2 || sel.Sel.Name != "String" || !c.state[recv.Name] {
				return nil, trFail(s, fset, "return (only <builder>.String())")
			}
			retVar = recv.Name
		default:
			return nil, trFail(s, fset, "statement")
		}
	}
	key, ok1 := loop.Key.(*ast.Ident)
	val, ok2 := loop.Value.(*ast.Ident)
	over, ok3 := loop.X.(*ast.Ident)
	if !ok1 || !ok2 || !ok3 || loop.Tok != token.DEFINE || retVar == "" {
		return nil, trFail(loop, fset, "loop header")
	}
	vars = append(vars, sv{key.Name, "Nat", "0"})
	c.state[key.Name] = true
	name := fd.Name.Name
	out := []string{"structure " + name + "State where"}
	inits := []string{}
	for _, v := range vars {
		out = append(out, "  "+v.name+" : "+v.typ)
		inits = append(inits, v.name+" := "+v.init)
	}
	out = append(out, "", "def "+name+"_body "+strings.Join(params, " ")+" (st : "+name+"State) ("+val.Name+" : Nat) : "+name+"State :=")
	body := []string{}
	for _, s := range loop.Body.List {
		ls, err := c.stateStmt(s, "  ", fset)
		if err != nil {
			return nil, err
		}
		body = append(body, ls...)
	}
	out = append(out, body...)
	out = append(out, "  { st with "+key.Name+" := st."+key.Name+" + 1 }", "")
	pnames := []string{}
	for _, f := range fd.Type.Params.List {
		for _, n := range f.Names {
			pnames = append(pnames, n.Name)
		}
	}
	out = append(out, "def "+name+" "+strings.Join(params, " ")+" : "+resT+" :=",
		"  ("+over.Name+".foldl ("+name+"_body "+strings.Join(pnames, " ")+") { "+strings.Join(inits, ", ")+" })."+retVar)
	return out, nil
}

// translateStr: the Lean text of Generated/StrGo.lean
func translateStr(repo string) (string, error) {
	fset := token.NewFileSet()
	f, err := parser.ParseFile(fset, filepath.Join(repo, "utils", "str.go"), nil, 0)
	if err != nil {
		return "", err
	}
	want := []string{"isDigit", "isLowercase", "isUppercase", "nextIsLower", "ToSnakeCase"}
	decls := map[string]*ast.FuncDecl{}
	for _, d := range f.Decls {
		if fd, ok := d.(*ast.FuncDecl); ok {
			decls[fd.Name.Name] = fd
		}
	}
	var b strings.Builder
	b.WriteString("/- GENERATED by factgen (translate.go) from /repo/utils/str.go — do not edit.\n")
	b.WriteString("   Runes and bytes are natural numbers (code points); `byte(x)` is `x % 256`; strings are lists of code points (ASCII\n")
	b.WriteString("   input: byte index = rune index). -/\nnamespace Sqlize.Gen.Str\n")
	for _, n := range want {
		fd, ok := decls[n]
		if !ok {
			return "", fmt.Errorf("translate: function %s not found in utils/str.go", n)
		}
		ls, err := translateFunc(fd, fset)
		if err != nil {
			return "", err
		}
		b.WriteString("\n" + strings.Join(ls, "\n") + "\n")
	}
	b.WriteString("\nend Sqlize.Gen.Str\n")
	return b.String(), nil
}
