// factgen re-extracts, from /repo's working tree, everything in the code that is *data* and writes it as Lean
// definitions (lean/SqlizeModel/Generated/Facts.lean).  It recognises fixed shapes with go/parser + go/ast and
// refuses anything else (exit 1): a refused shape is a broken tie between model and source.
package main

import (
	"flag"
	"fmt"
	"go/ast"
	"go/parser"
	"go/token"
	"os"
	"path/filepath"
	"sort"
	"strconv"
	"strings"
)

var dialects = []struct{ constName, value string }{
	{"MysqlDialect", "mysql"}, {"PostgresDialect", "postgres"}, {"SqliteDialect", "sqlite3"}, {"SqlserverDialect", "sqlserver"},
}

type piece struct {
	lit      string
	upperArg bool
}

type tpl struct {
	applied bool
	pieces  []piece
}

type evalEnv struct {
	dialect     string // constant name
	param       string // name of the single string parameter ("" if none)
	paramNonEmp bool
	recv        string
}

type unsupported struct{ why string }

func fail(format string, a ...interface{}) {
	fmt.Fprintf(os.Stderr, "factgen: "+format+"\n", a...)
	os.Exit(1)
}

func leanStr(s string) string {
	var b strings.Builder
	b.WriteByte('"')
	for _, r := range s {
		switch r {
		case '"':
			b.WriteString("\\\"")
		case '\\':
			b.WriteString("\\\\")
		case '\n':
			b.WriteString("\\n")
		case '\t':
			b.WriteString("\\t")
		case '\r':
			b.WriteString("\\r")
		default:
			b.WriteRune(r)
		}
	}
	b.WriteByte('"')
	return b.String()
}

func (e *evalEnv) cond(x ast.Expr) (bool, *unsupported) {
	switch c := x.(type) {
	case *ast.ParenExpr:
		return e.cond(c.X)
	case *ast.CallExpr:
		if sel, ok := c.Fun.(*ast.SelectorExpr); ok {
			if id, ok := sel.X.(*ast.Ident); ok && id.Name == e.recv && len(c.Args) == 0 {
				switch sel.Sel.Name {
				case "IsMysql":
					return e.dialect == "MysqlDialect", nil
				case "IsPostgres":
					return e.dialect == "PostgresDialect", nil
				case "IsSqlite":
					return e.dialect == "SqliteDialect", nil
				case "IsSqlserver":
					return e.dialect == "SqlserverDialect", nil
				}
			}
		}
	case *ast.BinaryExpr:
		if c.Op == token.NEQ || c.Op == token.EQL {
			// param != "" / param == ""
			if id, ok := c.X.(*ast.Ident); ok && id.Name == e.param && e.param != "" {
				if bl, ok := c.Y.(*ast.BasicLit); ok && bl.Value == `""` {
					if c.Op == token.NEQ {
						return e.paramNonEmp, nil
					}
					return !e.paramNonEmp, nil
				}
			}
			// s.dialect == X
			if sel, ok := c.X.(*ast.SelectorExpr); ok && sel.Sel.Name == "dialect" {
				if id, ok := c.Y.(*ast.Ident); ok {
					eq := id.Name == e.dialect
					if c.Op == token.NEQ {
						eq = !eq
					}
					return eq, nil
				}
			}
		}
		if c.Op == token.LAND || c.Op == token.LOR {
			a, u := e.cond(c.X)
			if u != nil {
				return false, u
			}
			b, u := e.cond(c.Y)
			if u != nil {
				return false, u
			}
			if c.Op == token.LAND {
				return a && b, nil
			}
			return a || b, nil
		}
	}
	return false, &unsupported{"condition"}
}

func (e *evalEnv) expr(x ast.Expr) (tpl, *unsupported) {
	switch v := x.(type) {
	case *ast.ParenExpr:
		return e.expr(v.X)
	case *ast.BasicLit:
		if v.Kind == token.STRING {
			s, err := strconv.Unquote(v.Value)
			if err != nil {
				return tpl{}, &unsupported{"string literal"}
			}
			return tpl{pieces: []piece{{lit: s}}}, nil
		}
	case *ast.BinaryExpr:
		if v.Op == token.ADD {
			a, u := e.expr(v.X)
			if u != nil {
				return tpl{}, u
			}
			b, u := e.expr(v.Y)
			if u != nil {
				return tpl{}, u
			}
			if a.applied || b.applied {
				return tpl{}, &unsupported{"apply inside concatenation"}
			}
			return tpl{pieces: append(a.pieces, b.pieces...)}, nil
		}
	case *ast.CallExpr:
		if sel, ok := v.Fun.(*ast.SelectorExpr); ok {
			if id, ok := sel.X.(*ast.Ident); ok {
				if id.Name == e.recv && sel.Sel.Name == "apply" && len(v.Args) == 1 {
					t, u := e.expr(v.Args[0])
					if u != nil {
						return tpl{}, u
					}
					t.applied = true
					return t, nil
				}
				if id.Name == "strings" && sel.Sel.Name == "ToUpper" && len(v.Args) == 1 {
					if a, ok := v.Args[0].(*ast.Ident); ok && a.Name == e.param && e.param != "" {
						return tpl{pieces: []piece{{upperArg: true}}}, nil
					}
				}
			}
		}
	}
	return tpl{}, &unsupported{"expression"}
}

// block evaluates statements until a return; done=false means fell through.
func (e *evalEnv) block(stmts []ast.Stmt) (tpl, bool, *unsupported) {
	for _, st := range stmts {
		switch s := st.(type) {
		case *ast.ReturnStmt:
			if len(s.Results) != 1 {
				return tpl{}, false, &unsupported{"return arity"}
			}
			t, u := e.expr(s.Results[0])
			return t, true, u
		case *ast.IfStmt:
			if s.Init != nil {
				return tpl{}, false, &unsupported{"if init"}
			}
			c, u := e.cond(s.Cond)
			if u != nil {
				return tpl{}, false, u
			}
			if c {
				t, done, u := e.block(s.Body.List)
				if u != nil || done {
					return t, done, u
				}
			} else if s.Else != nil {
				var t tpl
				var done bool
				var u *unsupported
				switch el := s.Else.(type) {
				case *ast.BlockStmt:
					t, done, u = e.block(el.List)
				case *ast.IfStmt:
					t, done, u = e.block([]ast.Stmt{el})
				}
				if u != nil || done {
					return t, done, u
				}
			}
		case *ast.SwitchStmt:
			sel, ok := s.Tag.(*ast.SelectorExpr)
			if !ok || sel.Sel.Name != "dialect" || s.Init != nil {
				return tpl{}, false, &unsupported{"switch tag"}
			}
			var chosen *ast.CaseClause
			var deflt *ast.CaseClause
			for _, cc := range s.Body.List {
				c := cc.(*ast.CaseClause)
				if c.List == nil {
					deflt = c
					continue
				}
				for _, x := range c.List {
					if id, ok := x.(*ast.Ident); ok && id.Name == e.dialect && chosen == nil {
						chosen = c
					}
				}
			}
			if chosen == nil {
				chosen = deflt
			}
			if chosen != nil {
				t, done, u := e.block(chosen.Body)
				if u != nil || done {
					return t, done, u
				}
			}
		default:
			return tpl{}, false, &unsupported{"statement"}
		}
	}
	return tpl{}, false, nil
}

type entry struct {
	method, dialect string
	nonEmpty        bool
	t               tpl
}

func main() {
	repo := flag.String("repo", "/repo", "repository root")
	out := flag.String("out", "", "output Lean file")
	skelOut := flag.String("skel-out", "", "output Lean file of the control skeletons (default: appended to -out)")
	strOut := flag.String("str-out", "", "output Lean file of the translated utils/str.go helpers (Generated/StrGo.lean)")
	flag.Parse()

	if *strOut != "" {
		txt, err := translateStr(*repo)
		if err != nil {
			// a form outside the translator's fragment: the generated module does not compile, so the tie
			// `Tie.translated_is_model` is reported as broken while the other facts and the suites still run
			txt = "/- GENERATED by factgen (translate.go): the translator refused the current utils/str.go\n   " + err.Error() + " -/\n" +
				"example : translator_refused_the_current_source = 0 := rfl\n"
		}
		if err := os.WriteFile(*strOut, []byte(txt), 0o644); err != nil {
			fail("write %s: %v", *strOut, err)
		}
	}

	fset := token.NewFileSet()
	var entries []entry
	methodsSeen := map[string]bool{}
	unsupportedMethods := []string{}

	for _, f := range []string{"sql-templates/ddl.go", "sql-templates/option.go", "sql-templates/type.go"} {
		file, err := parser.ParseFile(fset, filepath.Join(*repo, f), nil, 0)
		if err != nil {
			fail("parse %s: %v", f, err)
		}
		for _, d := range file.Decls {
			fn, ok := d.(*ast.FuncDecl)
			if !ok || fn.Recv == nil || len(fn.Recv.List) != 1 || fn.Type.Results == nil || len(fn.Type.Results.List) != 1 {
				continue
			}
			if id, ok := fn.Type.Results.List[0].Type.(*ast.Ident); !ok || id.Name != "string" {
				continue
			}
			recv := ""
			if len(fn.Recv.List[0].Names) == 1 {
				recv = fn.Recv.List[0].Names[0].Name
			}
			param := ""
			np := 0
			for _, p := range fn.Type.Params.List {
				np += len(p.Names)
				if len(p.Names) == 1 {
					param = p.Names[0].Name
				}
			}
			if np > 1 {
				continue
			}
			if fn.Name.Name == "apply" || fn.Name.Name == "EscapeSqlName" {
				continue // modelled by hand (Impl/Render.lean), tied by correspondence
			}
			okAll := true
			var es []entry
			for _, dl := range dialects {
				for _, ne := range []bool{false, true} {
					if param == "" && ne {
						continue
					}
					env := &evalEnv{dialect: dl.constName, param: param, paramNonEmp: ne, recv: recv}
					t, done, u := env.block(fn.Body.List)
					if u != nil || !done {
						okAll = false
						break
					}
					es = append(es, entry{fn.Name.Name, dl.value, ne, t})
				}
			}
			if okAll {
				entries = append(entries, es...)
				methodsSeen[fn.Name.Name] = true
			} else {
				unsupportedMethods = append(unsupportedMethods, fn.Name.Name)
			}
		}
	}

	required := []string{"CreateTableStm", "DropTableStm", "AlterTableAddColumnStm", "AlterTableAddColumnFirstStm", "AlterTableAddColumnAfterStm",
		"AlterTableDropColumnStm", "AlterTableModifyColumnStm", "AlterTableRenameColumnStm", "CreatePrimaryKeyStm",
		"CreateForeignKeyStm", "CreateIndexStm", "CreateUniqueIndexStm", "DropPrimaryKeyStm", "DropForeignKeyStm",
		"DropIndexStm", "AlterTableRenameIndexStm", "CreateTableMigration", "DropTableMigration", "InsertMigrationVersion",
		"RollbackMigrationVersion", "PrimaryOption", "AutoIncrementOption", "DefaultOption", "NotNullValue", "NullValue",
		"ColumnComment", "TableComment", "BooleanType", "TinyIntType", "SmallIntType", "IntType", "BigIntType", "FloatType",
		"DoubleType", "TextType", "DatetimeType", "PointerType", "UnspecificType"}
	for _, r := range required {
		if !methodsSeen[r] {
			fail("template method %s: missing or of an unsupported shape (unsupported: %v)", r, unsupportedMethods)
		}
	}

	// string constants
	consts := map[string]string{}
	wantConst := map[string][]string{
		"sqlize.go":              {"genDescription", "emptyMigration"},
		"utils/str.go":           {"defaultMigrationTimeFormat", "DefaultMigrationFolder", "DefaultMigrationUpSuffix", "DefaultMigrationDownSuffix", "DefaultMigrationTable"},
		"sql-builder/builder.go": {"SqlTagDefault", "prefixColumn", "prefixEmbedded", "prefixPreviousName", "prefixType", "prefixDefault", "prefixComment", "tagIsSquash", "tagIsEmbedded", "tagEnum", "tagIsNull", "tagIsNotNull", "tagIsAutoIncrement", "tagIsPrimaryKey", "tagIsIndex", "tagIsUniqueIndex", "prefixIndex", "prefixUniqueIndex", "prefixIndexColumns", "prefixIndexType", "prefixForeignKey", "prefixFkReferences", "prefixFkConstraint", "funcTableName"},
		"export/mermaidjs/builder.go": {"erdTag", "liveUrl", "defaultRelationType"},
	}
	for f, names := range wantConst {
		file, err := parser.ParseFile(fset, filepath.Join(*repo, f), nil, 0)
		if err != nil {
			fail("parse %s: %v", f, err)
		}
		found := map[string]string{}
		ast.Inspect(file, func(n ast.Node) bool {
			vs, ok := n.(*ast.ValueSpec)
			if !ok {
				return true
			}
			for i, nm := range vs.Names {
				if i < len(vs.Values) {
					if bl, ok := vs.Values[i].(*ast.BasicLit); ok && bl.Kind == token.STRING {
						s, _ := strconv.Unquote(bl.Value)
						found[nm.Name] = s
					}
				}
			}
			return true
		})
		for _, nm := range names {
			v, ok := found[nm]
			if !ok {
				fail("constant %s not found in %s", nm, f)
			}
			consts[nm] = v
		}
	}

	// action enum order (element/node.go)
	actions := []string{}
	{
		file, err := parser.ParseFile(fset, filepath.Join(*repo, "element/node.go"), nil, 0)
		if err != nil {
			fail("parse node.go: %v", err)
		}
		for _, d := range file.Decls {
			gd, ok := d.(*ast.GenDecl)
			if !ok || gd.Tok != token.CONST {
				continue
			}
			for _, sp := range gd.Specs {
				vs := sp.(*ast.ValueSpec)
				for _, nm := range vs.Names {
					if strings.HasPrefix(nm.Name, "Migrate") {
						actions = append(actions, nm.Name)
					}
				}
			}
		}
	}

	// package-level variables, their writers, and go statements (C17)
	type writer struct{ pkg, variable, fn string }
	var writers []writer
	var goStmts []string
	pkgVars := []string{}
	filepath.Walk(*repo, func(path string, info os.FileInfo, err error) error {
		if err != nil {
			return nil
		}
		if info.IsDir() {
			if info.Name() == ".git" || info.Name() == "vendor" {
				return filepath.SkipDir
			}
			return nil
		}
		if !strings.HasSuffix(path, ".go") || strings.HasSuffix(path, "_test.go") {
			return nil
		}
		file, err := parser.ParseFile(fset, path, nil, 0)
		if err != nil {
			fail("parse %s: %v", path, err)
		}
		rel, _ := filepath.Rel(*repo, path)
		vars := map[string]bool{}
		for _, d := range file.Decls {
			if gd, ok := d.(*ast.GenDecl); ok && gd.Tok == token.VAR {
				for _, sp := range gd.Specs {
					for _, nm := range sp.(*ast.ValueSpec).Names {
						if nm.Name != "_" {
							vars[nm.Name] = true
							pkgVars = append(pkgVars, file.Name.Name+"."+nm.Name)
						}
					}
				}
			}
		}
		_ = rel
		return nil
	})
	// second pass: writers need the package's var set (vars may be declared in another file of the package)
	pkgVarSet := map[string]map[string]bool{}
	for _, pv := range pkgVars {
		parts := strings.SplitN(pv, ".", 2)
		if pkgVarSet[parts[0]] == nil {
			pkgVarSet[parts[0]] = map[string]bool{}
		}
		pkgVarSet[parts[0]][parts[1]] = true
	}
	filepath.Walk(*repo, func(path string, info os.FileInfo, err error) error {
		if err != nil {
			return nil
		}
		if info.IsDir() {
			if info.Name() == ".git" || info.Name() == "vendor" {
				return filepath.SkipDir
			}
			return nil
		}
		if !strings.HasSuffix(path, ".go") || strings.HasSuffix(path, "_test.go") {
			return nil
		}
		file, _ := parser.ParseFile(fset, path, nil, 0)
		vars := pkgVarSet[file.Name.Name]
		for _, d := range file.Decls {
			fn, ok := d.(*ast.FuncDecl)
			if !ok || fn.Body == nil {
				continue
			}
			// names shadowed by parameters / receivers are still reported conservatively unless declared locally by :=
			local := map[string]bool{}
			if fn.Recv != nil {
				for _, f := range fn.Recv.List {
					for _, n := range f.Names {
						local[n.Name] = true
					}
				}
			}
			for _, f := range fn.Type.Params.List {
				for _, n := range f.Names {
					local[n.Name] = true
				}
			}
			ast.Inspect(fn.Body, func(n ast.Node) bool {
				switch s := n.(type) {
				case *ast.GoStmt:
					goStmts = append(goStmts, file.Name.Name+"."+fn.Name.Name)
				case *ast.AssignStmt:
					for _, lhs := range s.Lhs {
						root := lhs
						for {
							switch r := root.(type) {
							case *ast.SelectorExpr:
								root = r.X
								continue
							case *ast.IndexExpr:
								root = r.X
								continue
							case *ast.StarExpr:
								root = r.X
								continue
							case *ast.ParenExpr:
								root = r.X
								continue
							}
							break
						}
						if id, ok := root.(*ast.Ident); ok {
							if s.Tok == token.DEFINE {
								local[id.Name] = true
							} else if vars[id.Name] && !local[id.Name] {
								writers = append(writers, writer{file.Name.Name, id.Name, fn.Name.Name})
							}
						}
					}
				case *ast.IncDecStmt:
					if id, ok := s.X.(*ast.Ident); ok && vars[id.Name] && !local[id.Name] {
						writers = append(writers, writer{file.Name.Name, id.Name, fn.Name.Name})
					}
				}
				return true
			})
		}
		return nil
	})
	sort.Strings(pkgVars)
	sort.Slice(writers, func(i, j int) bool {
		return writers[i].pkg+writers[i].variable+writers[i].fn < writers[j].pkg+writers[j].variable+writers[j].fn
	})
	sort.Strings(goStmts)

	// sql-parser: in each Parser<Dialect> function the parse call and `if err != nil { return err }` come before any
	// call that has the receiver as receiver or argument (i.e. before the first edit of the model)
	type pbe struct {
		fn string
		ok bool
	}
	var parseFirst []pbe
	for _, f := range []struct{ file, fn string }{{"sql-parser/mysql.go", "ParserMysql"}, {"sql-parser/postgresql.go", "ParserPostgresql"}, {"sql-parser/sqlite.go", "ParserSqlite"}} {
		file, err := parser.ParseFile(fset, filepath.Join(*repo, f.file), nil, 0)
		if err != nil {
			fail("parse %s: %v", f.file, err)
		}
		found := false
		for _, d := range file.Decls {
			fn, ok := d.(*ast.FuncDecl)
			if !ok || fn.Name.Name != f.fn || fn.Recv == nil || len(fn.Recv.List[0].Names) != 1 {
				continue
			}
			found = true
			recv := fn.Recv.List[0].Names[0].Name
			usesRecv := func(n ast.Node) bool {
				uses := false
				ast.Inspect(n, func(x ast.Node) bool {
					call, ok := x.(*ast.CallExpr)
					if !ok {
						return true
					}
					if sel, ok := call.Fun.(*ast.SelectorExpr); ok {
						if id, ok := sel.X.(*ast.Ident); ok && id.Name == recv {
							uses = true
						}
						if inner, ok := sel.X.(*ast.SelectorExpr); ok {
							if id, ok := inner.X.(*ast.Ident); ok && id.Name == recv {
								uses = true
							}
						}
					}
					for _, a := range call.Args {
						if id, ok := a.(*ast.Ident); ok && id.Name == recv {
							uses = true
						}
					}
					return true
				})
				return uses
			}
			okShape := false
			sawParse := false
			for _, st := range fn.Body.List {
				if ifs, ok := st.(*ast.IfStmt); ok && sawParse {
					if be, ok := ifs.Cond.(*ast.BinaryExpr); ok && be.Op == token.NEQ {
						if id, ok := be.X.(*ast.Ident); ok && id.Name == "err" && len(ifs.Body.List) == 1 {
							if rs, ok := ifs.Body.List[0].(*ast.ReturnStmt); ok && len(rs.Results) == 1 {
								if rid, ok := rs.Results[0].(*ast.Ident); ok && rid.Name == "err" {
									okShape = true
								}
							}
						}
					}
					break
				}
				if usesRecv(st) {
					break
				}
				if as, ok := st.(*ast.AssignStmt); ok {
					for _, l := range as.Lhs {
						if id, ok := l.(*ast.Ident); ok && id.Name == "err" {
							sawParse = true
						}
					}
				}
			}
			parseFirst = append(parseFirst, pbe{f.fn, okShape})
		}
		if !found {
			fail("function %s not found in %s", f.fn, f.file)
		}
	}

	// sqlize.go: the fmt.Sprintf calls of the version statements (template method + argument list, in source order)
	type vcall struct {
		fn, tpl string
		args    []string
	}
	var versionCalls []vcall
	{
		file, err := parser.ParseFile(fset, filepath.Join(*repo, "sqlize.go"), nil, 0)
		if err != nil {
			fail("parse sqlize.go: %v", err)
		}
		for _, d := range file.Decls {
			fn, ok := d.(*ast.FuncDecl)
			if !ok || (fn.Name.Name != "migrationUpVersion" && fn.Name.Name != "migrationDownVersion") {
				continue
			}
			ast.Inspect(fn.Body, func(n ast.Node) bool {
				call, ok := n.(*ast.CallExpr)
				if !ok {
					return true
				}
				sel, ok := call.Fun.(*ast.SelectorExpr)
				if !ok || sel.Sel.Name != "Sprintf" || len(call.Args) == 0 {
					return true
				}
				tcall, ok := call.Args[0].(*ast.CallExpr)
				if !ok {
					fail("%s: Sprintf format is not a template method call", fn.Name.Name)
				}
				tsel, ok := tcall.Fun.(*ast.SelectorExpr)
				if !ok {
					fail("%s: Sprintf format is not a template method call", fn.Name.Name)
				}
				vc := vcall{fn: fn.Name.Name, tpl: tsel.Sel.Name}
				for _, a := range call.Args[1:] {
					switch x := a.(type) {
					case *ast.Ident:
						vc.args = append(vc.args, x.Name)
					case *ast.SelectorExpr:
						if id, ok := x.X.(*ast.Ident); ok {
							vc.args = append(vc.args, id.Name+"."+x.Sel.Name)
						} else {
							fail("%s: unsupported Sprintf argument", fn.Name.Name)
						}
					default:
						fail("%s: unsupported Sprintf argument", fn.Name.Name)
					}
				}
				versionCalls = append(versionCalls, vc)
				return true
			})
		}
		if len(versionCalls) == 0 {
			fail("no version statements found in sqlize.go")
		}
	}

	var b strings.Builder
	b.WriteString("/-\n  GENERATED by /verif/harness/cmd/factgen from /repo's working tree — do not edit.\n")
	b.WriteString("  Everything in the code that is *data*: statement templates per dialect, string constants, the action enum,\n  package-level variables with the functions that assign them, `go` statements.\n-/\n")
	b.WriteString("namespace Sqlize.Facts\n\n")
	b.WriteString("inductive Piece | lit (s : String) | upperArg\n  deriving DecidableEq, Repr\n\n")
	b.WriteString("structure Tpl where\n  applied : Bool\n  pieces : List Piece\n  deriving DecidableEq, Repr\n\n")
	b.WriteString("/-- (method, dialect, string argument non-empty) ↦ (wrapped in `s.apply`, concatenated pieces) -/\n")
	b.WriteString("def templates : List ((String × String × Bool) × Tpl) := [\n")
	for i, e := range entries {
		ps := []string{}
		for _, p := range e.t.pieces {
			if p.upperArg {
				ps = append(ps, ".upperArg")
			} else {
				ps = append(ps, ".lit "+leanStr(p.lit))
			}
		}
		sep := ","
		if i == len(entries)-1 {
			sep = ""
		}
		fmt.Fprintf(&b, "  ((%s, %s, %v), ⟨%v, [%s]⟩)%s\n", leanStr(e.method), leanStr(e.dialect), e.nonEmpty, e.t.applied, strings.Join(ps, ", "), sep)
	}
	b.WriteString("]\n\n")
	b.WriteString("def consts : List (String × String) := [\n")
	names := []string{}
	for k := range consts {
		names = append(names, k)
	}
	sort.Strings(names)
	for i, k := range names {
		sep := ","
		if i == len(names)-1 {
			sep = ""
		}
		fmt.Fprintf(&b, "  (%s, %s)%s\n", leanStr(k), leanStr(consts[k]), sep)
	}
	b.WriteString("]\n\n")
	qa := []string{}
	for _, a := range actions {
		qa = append(qa, leanStr(a))
	}
	fmt.Fprintf(&b, "def actionEnum : List String := [%s]\n\n", strings.Join(qa, ", "))
	qv := []string{}
	for _, v := range pkgVars {
		qv = append(qv, leanStr(v))
	}
	fmt.Fprintf(&b, "/-- every package-level `var` of the non-test sources -/\ndef packageVars : List String := [%s]\n\n", strings.Join(qv, ", "))
	qw := []string{}
	for _, w := range writers {
		qw = append(qw, fmt.Sprintf("(%s, %s)", leanStr(w.pkg+"."+w.variable), leanStr(w.pkg+"."+w.fn)))
	}
	fmt.Fprintf(&b, "/-- (package-level variable, function that assigns it) -/\ndef globalWriters : List (String × String) := [%s]\n\n", strings.Join(qw, ", "))
	qg := []string{}
	for _, g := range goStmts {
		qg = append(qg, leanStr(g))
	}
	fmt.Fprintf(&b, "/-- functions containing a `go` statement -/\ndef goStatements : List String := [%s]\n\n", strings.Join(qg, ", "))
	qp := []string{}
	for _, x := range parseFirst {
		qp = append(qp, fmt.Sprintf("(%s, %v)", leanStr(x.fn), x.ok))
	}
	fmt.Fprintf(&b, "/-- (Parser function, the parse call and its `return err` precede the first edit of the model) -/\ndef parseBeforeEdit : List (String × Bool) := [%s]\n\n", strings.Join(qp, ", "))
	qvc := []string{}
	for _, v := range versionCalls {
		as := []string{}
		for _, a := range v.args {
			as = append(as, leanStr(a))
		}
		qvc = append(qvc, fmt.Sprintf("(%s, %s, [%s])", leanStr(v.fn), leanStr(v.tpl), strings.Join(as, ", ")))
	}
	fmt.Fprintf(&b, "/-- (function, template method, Sprintf arguments) of the version statements in sqlize.go, in source order -/\ndef versionCalls : List (String × String × List String) := [%s]\n\n", strings.Join(qvc, ", "))
	qd := []string{}
	for _, e := range readerDispatch(fset, *repo) {
		cs := []string{}
		for _, c := range e.calls {
			cs = append(cs, leanStr(c))
		}
		qd = append(qd, fmt.Sprintf("  (%s, %s, [%s])", leanStr(e.fn), leanStr(e.path), strings.Join(cs, ", ")))
	}
	fmt.Fprintf(&b, "/-- the readers' dispatch tables: (function, branch on the node kind, model edits written directly in it, in source order) -/\ndef readerEdits : List (String × String × List String) := [\n%s]\n\n", strings.Join(qd, ",\n"))
	var sk strings.Builder
	for _, grp := range skeletonGroups {
		qs := []string{}
		for _, f := range skeletonOf(fset, *repo, grp.files, grp.only, grp.except) {
			ts := []string{}
			for _, t := range f.toks {
				ts = append(ts, leanStr(t))
			}
			qs = append(qs, fmt.Sprintf("  (%s, [%s])", leanStr(f.name), strings.Join(ts, ", ")))
		}
		fmt.Fprintf(&sk, "/-- control skeleton of the functions of %s (function, control statements with conditions and selector calls, in source order) -/\ndef %s : List (String × List String) := [\n%s]\n\n", grp.doc, grp.name, strings.Join(qs, ",\n"))
	}
	if *skelOut == "" {
		b.WriteString(sk.String())
	} else {
		hdr := "/-\n  Generated/Skeletons.lean — written by harness/cmd/factgen (skeleton.go) from /repo on every run; do not edit.\n-/\nnamespace Sqlize.Facts\n\n"
		if err := os.WriteFile(*skelOut, []byte(hdr+sk.String()+"end Sqlize.Facts\n"), 0644); err != nil {
			fail("%v", err)
		}
	}
	b.WriteString("end Sqlize.Facts\n")

	if *out == "" {
		fmt.Print(b.String())
		return
	}
	if err := os.WriteFile(*out, []byte(b.String()), 0644); err != nil {
		fail("%v", err)
	}
}
