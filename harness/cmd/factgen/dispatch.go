package main

import (
	"bytes"
	"go/ast"
	"go/parser"
	"go/printer"
	"go/token"
	"path/filepath"
	"strings"
)

// The readers' dispatch tables: for every function of the three reader files, every branch on the kind of a parsed
// node (a case clause of a switch / type switch, or the body of `if x, ok := n.(*T); ok`) with the model edits
// (`….Migration.X(…)` calls) written directly in it, in source order.  The hand-written reader models of
// lean/SqlizeModel/Impl/Reader*.lean are models of exactly these tables (theorem C05.reader_dispatch_as_modelled).
type dispatchEntry struct {
	fn, path string
	calls    []string
}

type dispatchVisitor struct {
	fset *token.FileSet
	fn   string
	path string
	out  *[]dispatchEntry
	cur  int // index into *out of the entry calls are filed under
}

func exprText(fset *token.FileSet, x ast.Expr) string {
	var b bytes.Buffer
	printer.Fprint(&b, fset, x)
	return strings.Join(strings.Fields(b.String()), " ")
}

func (v *dispatchVisitor) branch(label string) *dispatchVisitor {
	p := v.path + "/" + label
	*v.out = append(*v.out, dispatchEntry{fn: v.fn, path: p})
	return &dispatchVisitor{fset: v.fset, fn: v.fn, path: p, out: v.out, cur: len(*v.out) - 1}
}

func (v *dispatchVisitor) Visit(n ast.Node) ast.Visitor {
	switch x := n.(type) {
	case *ast.CaseClause:
		label := "default"
		if len(x.List) > 0 {
			var ls []string
			for _, e := range x.List {
				ls = append(ls, exprText(v.fset, e))
			}
			label = strings.Join(ls, ",")
		}
		w := v.branch(label)
		for _, st := range x.Body {
			ast.Walk(w, st)
		}
		return nil
	case *ast.IfStmt:
		// `if x, ok := n.(*T); ok { … }`: a branch on the node kind
		if as, ok := x.Init.(*ast.AssignStmt); ok && len(as.Rhs) == 1 {
			if ta, ok := as.Rhs[0].(*ast.TypeAssertExpr); ok && ta.Type != nil {
				w := v.branch(exprText(v.fset, ta.Type))
				ast.Walk(w, x.Body)
				if x.Else != nil {
					ast.Walk(v, x.Else)
				}
				return nil
			}
		}
		return v
	case *ast.CallExpr:
		if sel, ok := x.Fun.(*ast.SelectorExpr); ok {
			if inner, ok := sel.X.(*ast.SelectorExpr); ok && inner.Sel.Name == "Migration" {
				(*v.out)[v.cur].calls = append((*v.out)[v.cur].calls, sel.Sel.Name)
			}
		}
		return v
	}
	return v
}

func readerDispatch(fset *token.FileSet, repo string) []dispatchEntry {
	var out []dispatchEntry
	for _, f := range []string{"sql-parser/mysql.go", "sql-parser/postgresql.go", "sql-parser/sqlite.go"} {
		file, err := parser.ParseFile(fset, filepath.Join(repo, f), nil, 0)
		if err != nil {
			fail("parse %s: %v", f, err)
		}
		for _, d := range file.Decls {
			fn, ok := d.(*ast.FuncDecl)
			if !ok || fn.Body == nil {
				continue
			}
			name := strings.TrimSuffix(filepath.Base(f), ".go") + "." + fn.Name.Name
			out = append(out, dispatchEntry{fn: name, path: ""})
			v := &dispatchVisitor{fset: fset, fn: name, path: "", out: &out, cur: len(out) - 1}
			ast.Walk(v, fn.Body)
		}
	}
	// keep the branches that edit the model, and the kind branches that do not (an ignored statement kind is a fact too);
	// drop functions that neither branch nor edit
	var kept []dispatchEntry
	has := map[string]bool{}
	for _, e := range out {
		if e.path != "" || len(e.calls) > 0 {
			has[e.fn] = true
		}
	}
	for _, e := range out {
		if has[e.fn] && (e.path != "" || len(e.calls) > 0) {
			kept = append(kept, e)
		}
	}
	return kept
}
