package main

import (
	"go/ast"
	"go/parser"
	"go/token"
	"path/filepath"
	"sort"
	"strings"
)

// The control skeleton of the functions of package element that the hand-written models of Impl/Element.lean,
// Impl/Diff.lean and Impl/Emit.lean were written from: per function, in source order, the control statements with their
// conditions (if / else / for / range / switch / case / return / continue / break / goto) and the selector calls
// (`x.Method(` — the method name only).  Assignments and plain expressions are left out, so a harmless rewrite of a
// statement does not change the skeleton; a changed condition, a dropped or added branch, loop, early exit or call does.
// The Lean side keeps a copy the models were written against (Props/TieElement.lean: `element_skeleton_as_modelled`).
type skelFn struct {
	name string
	toks []string
}

type skelVisitor struct {
	fset *token.FileSet
	out  *[]string
}

func (v *skelVisitor) add(s string) { *v.out = append(*v.out, s) }

func (v *skelVisitor) block(label string, b ast.Node) {
	v.add(label + "{")
	if b != nil {
		ast.Walk(v, b)
	}
	v.add("}")
}

func (v *skelVisitor) Visit(n ast.Node) ast.Visitor {
	switch x := n.(type) {
	case *ast.IfStmt:
		if x.Init != nil {
			ast.Walk(v, x.Init)
		}
		v.add("if " + exprText(v.fset, x.Cond))
		v.calls(x.Cond)
		v.block("then", x.Body)
		if x.Else != nil {
			v.block("else", x.Else)
		}
		return nil
	case *ast.ForStmt:
		c := ""
		if x.Cond != nil {
			c = exprText(v.fset, x.Cond)
		}
		p := ""
		if x.Post != nil {
			switch ps := x.Post.(type) {
			case *ast.IncDecStmt:
				p = exprText(v.fset, ps.X) + ps.Tok.String()
			default:
				p = "post"
			}
		}
		i := ""
		if as, ok := x.Init.(*ast.AssignStmt); ok && len(as.Rhs) == 1 {
			i = exprText(v.fset, as.Rhs[0])
		}
		v.add("for " + i + "; " + c + "; " + p)
		v.block("do", x.Body)
		return nil
	case *ast.RangeStmt:
		v.add("range " + exprText(v.fset, x.X))
		v.block("do", x.Body)
		return nil
	case *ast.SwitchStmt:
		t := ""
		if x.Tag != nil {
			t = exprText(v.fset, x.Tag)
		}
		v.add("switch " + t)
		v.block("cases", x.Body)
		return nil
	case *ast.TypeSwitchStmt:
		v.add("typeswitch")
		v.block("cases", x.Body)
		return nil
	case *ast.CaseClause:
		label := "default"
		if len(x.List) > 0 {
			var ls []string
			for _, e := range x.List {
				ls = append(ls, exprText(v.fset, e))
			}
			label = strings.Join(ls, ",")
		}
		v.add("case " + label)
		for _, st := range x.Body {
			ast.Walk(v, st)
		}
		return nil
	case *ast.ReturnStmt:
		v.add("return")
		return v
	case *ast.BranchStmt:
		v.add(x.Tok.String())
		return nil
	case *ast.FuncLit:
		v.block("func", x.Body)
		return nil
	case *ast.CallExpr:
		if sel, ok := x.Fun.(*ast.SelectorExpr); ok {
			v.add("call " + sel.Sel.Name)
		} else if id, ok := x.Fun.(*ast.Ident); ok {
			switch id.Name {
			case "append", "len", "make", "delete", "copy", "cap", "new", "panic", "string", "int", "min", "max":
				if id.Name == "delete" || id.Name == "panic" {
					v.add("call " + id.Name)
				}
			default:
				v.add("call " + id.Name)
			}
		}
		return v
	}
	return v
}

// calls inside a condition were already printed as part of the condition text
func (v *skelVisitor) calls(ast.Expr) {}

// the groups of source files a skeleton fact is extracted for (name of the Lean definition, files)
var skeletonGroups = []struct {
	name, doc string
	files     []string
	only      []string // when set: the functions (by name after the receiver) the group is restricted to
	except    []string
}{
	{"elementSkeleton", "package element", []string{"element/table.go", "element/migration.go", "element/column.go", "element/index.go", "element/foreign_key.go"}, nil, nil},
	{"builderSkeleton", "package sql_builder", []string{"sql-builder/builder.go", "sql-builder/options.go"}, nil, nil},
	{"mermaidSkeleton", "package mermaidjs", []string{"export/mermaidjs/builder.go"}, nil, nil},
	{"avroSkeleton", "package avro", []string{"export/avro/builder.go", "export/avro/schema.go"}, nil, nil},
	{"apiLoadSkeleton", "the constructor, the options and the load / diff / print entry points of sqlize.go", []string{"sqlize.go", "options.go"},
		nil, []string{"HashValue", "MermaidJsErd", "MermaidJsLive", "ArvoSchema", "selectTable", "StringUpWithVersion", "StringDownWithVersion",
			"migrationUpVersion", "migrationDownVersion", "WriteFiles", "WriteFilesVersion", "WriteFilesWithVersion", "writeFiles", "FromMigrationFolder"}},
	{"apiHashSkeleton", "Sqlize.HashValue", []string{"sqlize.go"}, []string{"HashValue"}, nil},
	{"apiExportSkeleton", "the export entry points of sqlize.go", []string{"sqlize.go"}, []string{"MermaidJsErd", "MermaidJsLive", "ArvoSchema", "selectTable"}, nil},
	{"apiVersionSkeleton", "the version entry points of sqlize.go", []string{"sqlize.go"},
		[]string{"StringUpWithVersion", "StringDownWithVersion", "migrationUpVersion", "migrationDownVersion"}, nil},
	{"apiFilesSkeleton", "the file entry points of sqlize.go", []string{"sqlize.go"},
		[]string{"WriteFiles", "WriteFilesVersion", "WriteFilesWithVersion", "writeFiles", "FromMigrationFolder"}, nil},
	{"utilsStrSkeleton", "utils/str.go (but MigrationFileName) and utils/slc.go", []string{"utils/str.go", "utils/slc.go"}, nil, []string{"MigrationFileName"}},
	{"utilsFileSkeleton", "utils/file.go and MigrationFileName", []string{"utils/file.go", "utils/str.go"}, []string{"ReadPath", "glob", "MigrationFileName"}, nil},
	{"parserSkeleton", "package sql_parser", []string{"sql-parser/parser.go", "sql-parser/mysql.go", "sql-parser/postgresql.go", "sql-parser/sqlite.go"}, nil, nil},
	{"templatesSkeleton", "package sql_templates", []string{"sql-templates/ddl.go", "sql-templates/option.go", "sql-templates/type.go"}, nil, nil},
}

func inNames(l []string, n string) bool {
	for _, x := range l {
		if x == n {
			return true
		}
	}
	return false
}

func skeletonOf(fset *token.FileSet, repo string, files, only, except []string) []skelFn {
	var out []skelFn
	for _, f := range files {
		file, err := parser.ParseFile(fset, filepath.Join(repo, f), nil, 0)
		if err != nil {
			fail("parse %s: %v", f, err)
		}
		for _, d := range file.Decls {
			fn, ok := d.(*ast.FuncDecl)
			if !ok || fn.Body == nil {
				continue
			}
			if (only != nil && !inNames(only, fn.Name.Name)) || inNames(except, fn.Name.Name) {
				continue
			}
			recv := ""
			if fn.Recv != nil && len(fn.Recv.List) > 0 {
				recv = strings.TrimPrefix(exprText(fset, fn.Recv.List[0].Type), "*") + "."
			}
			var toks []string
			v := &skelVisitor{fset: fset, out: &toks}
			ast.Walk(v, fn.Body)
			out = append(out, skelFn{name: strings.TrimSuffix(filepath.Base(f), ".go") + ":" + recv + fn.Name.Name, toks: toks})
		}
	}
	sort.SliceStable(out, func(i, j int) bool { return out[i].name < out[j].name })
	return out
}
