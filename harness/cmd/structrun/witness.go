package main

import "database/sql"

// Hand-written struct witnesses of the recorded builder findings (ids referenced from /verif/known_findings.json).
// decl / expect are the same S-expressions `harness structgen` writes for generated structs.

type WPrevIdx struct {
	ID    int    `sql:"primary_key"`
	Email string `sql:"column:c_email,previous:old_email;index:ix_email"`
}

type WIdxBeforeCol struct {
	ID  int `sql:"primary_key"`
	Ref int `sql:"index:ix_ref;column:c_ref"`
}

type WCommentPk struct {
	A    int    `sql:"comment:PRIMARY KEY of x"`
	Code string `sql:"primary_key;type:VARCHAR(64)"`
}

type WInner struct {
	Name string `sql:"column:c_name,previous:old_name"`
}

type WPrefixedPrev struct {
	ID    int    `sql:"primary_key"`
	Inner WInner `sql:"embedded_prefix:in_"`
}

// seeded change C06-c: the default index name inside a prefixed embedded struct carries the prefix once
type WEmbIdxInner struct {
	Code string `sql:"index_type:hash"`
	Zone string `sql:"index"`
}

type WEmbIdx struct {
	ID    int          `sql:"primary_key"`
	Audit WEmbIdxInner `sql:"embedded_prefix:audit_"`
}

// seeded change C06-l: non-nil pointers whose target is not a primitive: sql.Null*, another pointer
type WPtrDeep struct {
	ID int `sql:"primary_key"`
	NS *sql.NullString
	NI *sql.NullInt64
	PP **string
}

func ptrPtrString() **string { p := ptrString(); return &p }

// seeded change C10-k: value-carrying tag keys written in camelCase with upper-case letters in their values
type WCamelInner struct {
	Code string `sql:"indexType:HASH"`
	Zone string `sql:"index"`
}

type WCamelVals struct {
	ID    int         `sql:"primaryKey"`
	Audit WCamelInner `sql:"embeddedPrefix:Aud_"`
}

// seeded change C06-g: a struct flattened with plain `squash` inside a struct embedded with a prefix keeps the outer prefix
type WSqInner struct {
	CreatedAt string
}

type WSqMid struct {
	Note string
	Meta WSqInner `sql:"squash"`
}

type WSqOuter struct {
	ID   int    `sql:"primary_key"`
	Base WSqMid `sql:"embedded_prefix:meta_"`
}

// seeded change C06-i: every primitive type behind a non-nil pointer is nullable
type WPtrs struct {
	ID    int `sql:"primary_key"`
	Flag  *bool
	Tiny  *int8
	Small *int16
	Num   *int
	Big   *int64
	Ratio *float32
	Rate  *float64
	Label *string
}

// seeded change C06-n: with comment generation the no-comment list (id, created_at, …) is matched against the full column
// name: inside a prefixed embedded struct `audit_id` / `audit_created_at` do get a generated comment
type WGenCmtInner struct {
	ID        int
	CreatedAt string
	Note      string
}

type WGenCmt struct {
	ID        int `sql:"primary_key"`
	CreatedAt string
	Audit     WGenCmtInner `sql:"embedded_prefix:audit_"`
}

// seeded change C06-q: a composite index inside a struct embedded with a prefix: the index name joins the column names as
// written in the tag
type WEmbCompInner struct {
	Actor  string `sql:"index_columns:audit_actor,audit_action"`
	Action string
	Zone   string `sql:"index:audit_zone,audit_actor"`
}

type WEmbComp struct {
	ID    int           `sql:"primary_key"`
	Audit WEmbCompInner `sql:"embedded_prefix:audit_"`
}

var my = structCfg{dialect: "mysql", tagKey: "sql"}
var myCmt = structCfg{dialect: "mysql", tagKey: "sql", comment: true}

var witnessCases = []structCase{
	{id: "wst-composite-index-in-prefixed-embedded", cfg: my, obj: WEmbComp{},
		decl:   `(decl "WEmbComp" "" ((field "ID" int "int" "primary_key") (field "Audit" (struct ((field "Actor" string "string" "index_columns:audit_actor,audit_action") (field "Action" string "string" "") (field "Zone" string "string" "index:audit_zone,audit_actor"))) "WEmbCompInner" "embedded_prefix:audit_")))`,
		expect: `(expect "w_emb_comp" ((col "id" "INT" ("pk") true) (col "audit_actor" "TEXT" () false) (col "audit_action" "TEXT" () false) (col "audit_zone" "TEXT" () false)) ((idx "idx_audit_actor_audit_action" ("audit_actor" "audit_action") false "") (idx "idx_audit_zone_audit_actor" ("audit_zone" "audit_actor") false "")) () ())`},
	{id: "wst-generated-comments-in-prefixed-embedded", cfg: myCmt, obj: WGenCmt{},
		decl:   `(decl "WGenCmt" "" ((field "ID" int "int" "primary_key") (field "CreatedAt" string "string" "") (field "Audit" (struct ((field "ID" int "int" "") (field "CreatedAt" string "string" "") (field "Note" string "string" ""))) "WGenCmtInner" "embedded_prefix:audit_")))`,
		expect: `(expect "w_gen_cmt" ((col "id" "INT" ("pk") true) (col "created_at" "TEXT" () false) (col "audit_id" "INT" ("comment:audit id") false) (col "audit_created_at" "TEXT" ("comment:audit created at") false) (col "audit_note" "TEXT" ("comment:audit note") false)) () () ())`},
	{id: "wst-non-nil-pointers", cfg: my, obj: WPtrs{Flag: ptrBool(), Tiny: ptrInt8(), Small: ptrInt16(), Num: ptrInt(), Big: ptrInt64(), Ratio: ptrFloat32(), Rate: ptrFloat64(), Label: ptrString()},
		decl: `(decl "WPtrs" "" ((field "ID" int "int" "primary_key") (field "Flag" (ptrTo bool) "*bool" "") (field "Tiny" (ptrTo int8) "*int8" "") (field "Small" (ptrTo int16) "*int16" "") (field "Num" (ptrTo int) "*int" "") (field "Big" (ptrTo int64) "*int64" "") (field "Ratio" (ptrTo float32) "*float32" "") (field "Rate" (ptrTo float64) "*float64" "") (field "Label" (ptrTo string) "*string" "")))`,
		expect: `(expect "w_ptrs" ((col "id" "INT" ("pk") true) (col "flag" "BOOLEAN" ("null") false) (col "tiny" "TINYINT" ("null") false) (col "small" "SMALLINT" ("null") false) (col "num" "INT" ("null") false) (col "big" "BIGINT" ("null") false) (col "ratio" "FLOAT" ("null") false) (col "rate" "DOUBLE" ("null") false) (col "label" "TEXT" ("null") false)) () () ())`},
	{id: "wst-squash-in-prefixed-embedded", cfg: my, obj: WSqOuter{},
		decl:   `(decl "WSqOuter" "" ((field "ID" int "int" "primary_key") (field "Base" (struct ((field "Note" string "string" "") (field "Meta" (struct ((field "CreatedAt" string "string" ""))) "WSqInner" "squash"))) "WSqMid" "embedded_prefix:meta_")))`,
		expect: `(expect "w_sq_outer" ((col "id" "INT" ("pk") true) (col "meta_note" "TEXT" () false) (col "meta_created_at" "TEXT" () false)) () ())`},
	{id: "wst-index-in-prefixed-embedded", cfg: my, obj: WEmbIdx{},
		decl:   `(decl "WEmbIdx" "" ((field "ID" int "int" "primary_key") (field "Audit" (struct ((field "Code" string "string" "index_type:hash") (field "Zone" string "string" "index"))) "WEmbIdxInner" "embedded_prefix:audit_")))`,
		expect: `(expect "w_emb_idx" ((col "id" "INT" ("pk") true) (col "audit_code" "TEXT" () false) (col "audit_zone" "TEXT" () false)) ((idx "idx_audit_code" ("audit_code") false "HASH") (idx "idx_audit_zone" ("audit_zone") false "")) () ())`},
	{id: "wst-pointers-to-null-types-and-pointers", cfg: my,
		obj:    WPtrDeep{NS: &sql.NullString{String: "x", Valid: true}, NI: &sql.NullInt64{Int64: 1, Valid: true}, PP: ptrPtrString()},
		decl:   `(decl "WPtrDeep" "" ((field "ID" int "int" "primary_key") (field "NS" (ptrTo nullString) "*sql.NullString" "") (field "NI" (ptrTo nullInt64) "*sql.NullInt64" "") (field "PP" (ptrTo (ptrTo string)) "**string" "")))`,
		expect: `(expect "w_ptr_deep" ((col "id" "INT" ("pk") true) (col "ns" "TEXT" ("null") false) (col "ni" "BIGINT" ("null") false) (col "pp" "TEXT" ("null") false)) () () ())`},
	{id: "wst-camel-keys-upper-values", cfg: my, obj: WCamelVals{},
		decl:   `(decl "WCamelVals" "" ((field "ID" int "int" "primaryKey") (field "Audit" (struct ((field "Code" string "string" "indexType:HASH") (field "Zone" string "string" "index"))) "WCamelInner" "embeddedPrefix:Aud_")))`,
		expect: `(expect "w_camel_vals" ((col "id" "INT" ("pk") true) (col "Aud_code" "TEXT" () false) (col "Aud_zone" "TEXT" () false)) ((idx "idx_Aud_code" ("Aud_code") false "HASH") (idx "idx_Aud_zone" ("Aud_zone") false "")) () ())`},
	{id: "wst-previous-with-index", cfg: my, obj: WPrevIdx{},
		decl:   `(decl "WPrevIdx" "" ((field "ID" int "int" "primary_key") (field "Email" string "string" "column:c_email,previous:old_email;index:ix_email")))`,
		expect: `(expect "w_prev_idx" ((col "id" "INT" ("pk") true) (col "c_email" "TEXT" () false)) ((idx "ix_email" ("c_email") false "")) (("old_email" "c_email")))`},
	{id: "wst-index-before-column", cfg: my, obj: WIdxBeforeCol{},
		decl:   `(decl "WIdxBeforeCol" "" ((field "ID" int "int" "primary_key") (field "Ref" int "int" "index:ix_ref;column:c_ref")))`,
		expect: `(expect "w_idx_before_col" ((col "id" "INT" ("pk") true) (col "c_ref" "INT" () false)) ((idx "ix_ref" ("c_ref") false "")) ())`},
	{id: "wst-comment-contains-primary-key", cfg: my, obj: WCommentPk{},
		decl:   `(decl "WCommentPk" "" ((field "A" int "int" "comment:PRIMARY KEY of x") (field "Code" string "string" "primary_key;type:VARCHAR(64)")))`,
		expect: `(expect "w_comment_pk" ((col "code" "VARCHAR(64)" ("pk") true) (col "a" "INT" ("comment:PRIMARY KEY of x") false)) () ())`},
	{id: "wst-previous-in-prefixed-embedded", cfg: my, obj: WPrefixedPrev{},
		decl:   `(decl "WPrefixedPrev" "" ((field "ID" int "int" "primary_key") (field "Inner" (struct ((field "Name" string "string" "column:c_name,previous:old_name"))) "WInner" "embedded_prefix:in_")))`,
		expect: `(expect "w_prefixed_prev" ((col "id" "INT" ("pk") true) (col "in_c_name" "TEXT" () false)) () (("old_name" "c_name")))`},
}
