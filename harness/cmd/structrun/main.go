// structrun drives the struct route of sqlize (sql_builder.SqlBuilder.AddTable, Sqlize.FromObjects) on the struct types
// generated into gen_cases.go by `harness structgen`, and writes one case line per struct for the Lean driver.
package main

import (
	"bufio"
	"flag"
	"fmt"
	"os"
	"runtime/debug"
	"strings"

	"github.com/sunary/sqlize"
	sql_builder "github.com/sunary/sqlize/sql-builder"
	sql_templates "github.com/sunary/sqlize/sql-templates"
)

type structCfg struct {
	dialect string
	lower   bool
	comment bool
	plural  bool
	tagKey  string
}

type structCase struct {
	id  string
	cfg structCfg
	obj interface{}
	// the same declaration with every tag key in snake_case (nil for hand-written cases)
	objSnake interface{}
	decl     string
	expect   string
	// the other models of the same FromObjects call (foreign-key targets), their order, and their declarations
	others     []interface{}
	childFirst bool
	extra      string
}

func ptrBool() *bool       { v := true; return &v }
func ptrString() *string   { v := "x"; return &v }
func ptrInt() *int         { v := 1; return &v }
func ptrInt8() *int8       { v := int8(1); return &v }
func ptrUint8() *uint8     { v := uint8(1); return &v }
func ptrInt16() *int16     { v := int16(1); return &v }
func ptrInt32() *int32     { v := int32(1); return &v }
func ptrUint32() *uint32   { v := uint32(1); return &v }
func ptrInt64() *int64     { v := int64(1); return &v }
func ptrUint64() *uint64   { v := uint64(1); return &v }
func ptrFloat32() *float32 { v := float32(1); return &v }
func ptrFloat64() *float64 { v := 1.5; return &v }

func q(s string) string {
	var b strings.Builder
	b.WriteByte('"')
	for i := 0; i < len(s); i++ {
		c := s[i]
		switch {
		case c == '"':
			b.WriteString("\\\"")
		case c == '\\':
			b.WriteString("\\\\")
		case c == '\n':
			b.WriteString("\\n")
		case c == '\t':
			b.WriteString("\\t")
		case c == '\r':
			b.WriteString("\\r")
		case c < 32 || c >= 127:
			fmt.Fprintf(&b, "\\x%02x", c)
		default:
			b.WriteByte(c)
		}
	}
	b.WriteByte('"')
	return b.String()
}

func guard(f func() string) (res string) {
	defer func() {
		if r := recover(); r != nil {
			st := string(debug.Stack())
			frame := "?"
			for _, l := range strings.Split(st, "\n") {
				if strings.HasPrefix(l, "github.com/sunary/sqlize") {
					frame = l
					if j := strings.LastIndex(frame, "("); j > 0 {
						frame = frame[:j]
					}
					break
				}
			}
			res = "panic:" + frame + ":" + fmt.Sprint(r)
		}
	}()
	return f()
}

func dialectOpt(d string) sql_templates.SqlDialect {
	switch d {
	case "postgres":
		return sql_templates.PostgresDialect
	case "sqlite3":
		return sql_templates.SqliteDialect
	}
	return sql_templates.MysqlDialect
}

func main() {
	out := flag.String("out", "", "case file")
	flag.Parse()
	f := os.Stdout
	if *out != "" {
		var err error
		f, err = os.Create(*out)
		if err != nil {
			fmt.Fprintln(os.Stderr, err)
			os.Exit(2)
		}
		defer f.Close()
	}
	w := bufio.NewWriter(f)
	defer w.Flush()
	for _, c := range append(append([]structCase{}, witnessCases...), generatedCases...) {
		bopts := []sql_builder.SqlBuilderOption{sql_builder.WithSqlTag(c.cfg.tagKey), sql_builder.WithDialect(dialectOpt(c.cfg.dialect))}
		sopts := []sqlize.SqlizeOption{sqlize.WithSqlTag(c.cfg.tagKey)}
		switch c.cfg.dialect {
		case "postgres":
			sopts = append(sopts, sqlize.WithPostgresql())
		case "sqlite3":
			sopts = append(sopts, sqlize.WithSqlite())
		}
		if c.cfg.lower {
			bopts = append(bopts, sql_builder.WithSqlLowercase())
			sopts = append(sopts, sqlize.WithSqlLowercase())
		}
		if c.cfg.comment {
			bopts = append(bopts, sql_builder.WithCommentGenerate())
			sopts = append(sopts, sqlize.WithCommentGenerate())
		}
		if c.cfg.plural {
			bopts = append(bopts, sql_builder.WithPluralTableName())
			sopts = append(sopts, sqlize.WithPluralTableName())
		}
		objs := append([]interface{}{c.obj}, c.others...)
		if !c.childFirst {
			objs = append(append([]interface{}{}, c.others...), c.obj)
		}
		if c.extra == "" {
			c.extra = "()"
		}
		mapping := func(b *sql_builder.SqlBuilder) {
			m := map[string]string{}
			for _, o := range objs {
				ob, tb := b.GetTableName(o)
				m[ob] = tb
			}
			b.MappingTables(m)
		}
		sb := sql_builder.NewSqlBuilder(bopts...)
		ddl := guard(func() string { mapping(sb); return sb.AddTable(c.obj) })
		// the other keyword-case option (C10): same text up to ASCII case
		fopts := []sql_builder.SqlBuilderOption{sql_builder.WithSqlTag(c.cfg.tagKey), sql_builder.WithDialect(dialectOpt(c.cfg.dialect))}
		if !c.cfg.lower {
			fopts = append(fopts, sql_builder.WithSqlLowercase())
		}
		if c.cfg.comment {
			fopts = append(fopts, sql_builder.WithCommentGenerate())
		}
		if c.cfg.plural {
			fopts = append(fopts, sql_builder.WithPluralTableName())
		}
		ddlFlip := guard(func() string { fb := sql_builder.NewSqlBuilder(fopts...); mapping(fb); return fb.AddTable(c.obj) })
		// the twin type with canonical tag keys (C10): the same text
		ddlSnake := ""
		if c.objSnake != nil {
			ddlSnake = guard(func() string {
				tb := sql_builder.NewSqlBuilder(bopts...)
				m := map[string]string{}
				for _, o := range append([]interface{}{c.objSnake}, c.others...) {
					ob, tn := tb.GetTableName(o)
					m[ob] = tn
				}
				tb.MappingTables(m)
				return tb.AddTable(c.objSnake)
			})
		}
		s := sqlize.NewSqlize(sopts...)
		load := guard(func() string {
			if err := s.FromObjects(objs...); err != nil {
				return "error:" + strings.SplitN(err.Error(), "\n", 2)[0]
			}
			return "ok"
		})
		dump := guard(func() string { return s.StringUp() })
		hash := guard(func() string { return fmt.Sprint(s.HashValue()) })
		// C03: the same models loaded twice, and the models against sqlize's own dump of them, must diff to nothing
		diffOf := func(mk func(z *sqlize.Sqlize) error) (string, string) {
			a, b := sqlize.NewSqlize(sopts...), sqlize.NewSqlize(sopts...)
			r := guard(func() string {
				if err := a.FromObjects(objs...); err != nil {
					return "error:" + strings.SplitN(err.Error(), "\n", 2)[0]
				}
				if err := mk(b); err != nil {
					return "error:" + strings.SplitN(err.Error(), "\n", 2)[0]
				}
				b.Diff(*a)
				return "ok"
			})
			if r != "ok" {
				return r, r
			}
			return guard(func() string { return b.StringUp() }), guard(func() string { return b.StringDown() })
		}
		selfUp, selfDown := diffOf(func(z *sqlize.Sqlize) error { return z.FromObjects(objs...) })
		dumpUp, dumpDown := diffOf(func(z *sqlize.Sqlize) error { return z.FromString(dump) })
		fmt.Fprintf(w, "(case %s struct (cfg %s %v %v) (bcfg %v %v) %s %s %s %s %s %s %s %s (c03 %s %s %s %s) (snake %v %s))\n", c.id, c.cfg.dialect, c.cfg.lower, false,
			c.cfg.comment, c.cfg.plural, c.decl, c.expect, q(ddl), q(ddlFlip), q(load), q(dump), q(hash), c.extra,
			q(selfUp), q(selfDown), q(dumpUp), q(dumpDown), c.objSnake != nil, q(ddlSnake))
	}
}
