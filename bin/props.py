"""Per-property configuration of /verif/bin/check: which Lean modules carry the theorems, which harness suites tie the
model to /repo, and the trusted base that goes into the evidence."""

ALLOWED_AXIOMS = {"propext", "Classical.choice", "Quot.sound"}
FORBIDDEN_TOKENS = [r"\bsorry\b", r"\badmit\b", r"^axiom\s", r"native_decide", r"bv_decide", r"implemented_by",
                    r"\bunsafe\s", r"maxHeartbeats\s+0"]

COMMON_TB = [
    "Lean 4.33.0 kernel (thorough tier: re-checked with leanchecker); axioms audited per theorem, allowed: propext, Classical.choice, Quot.sound",
    "statement files lean/SqlizeModel/Props/*.lean and Spec/*.lean are read, not proved",
    "Go harness (generators, canonicalisation) and Lean driver I/O shell; bin/check",
]

PAIR_RULE = ("pairs (old,new) of schemas: random schemas (0..4 tables, 1..5 columns, 18 mysql / 9 postgres / 4 sqlite type atoms, option kinds "
             "notnull/null/default/autoinc/pk/comment, 0..2 indexes per table incl. composite/unique, foreign keys) and a mutation of 0..5 edits "
             "(add column first/middle/last, drop, retype, re-option, add/drop/redefine index, add/drop fk, add/drop table) keeping common columns in "
             "order; dialect mix 3:1:1 mysql:postgres:sqlite x keyword case x field-order option; SQL rendered by the harness with random keyword "
             "case and type alias spellings; 18 hand-written witness pairs (one per defect found) run first. Every case: both sides loaded through "
             "sqlize.FromString, white-box state after load and after Diff, StringUp/StringDown/StringUp compared with the Lean model; the migration "
             "text printed by Go is parsed by Spec/Grammar and executed on the reference engine (Spec.c01/c02/c03/c13). A pair the executable predicate "
             "Spec.Scope.Proved accepts (the hypotheses of the whole-schema theorems, Proofs/ScopeB.lean) is counted under cases_inside_theorem_scope and is never excused by a "
             "recorded-finding region. non-trivial = non-empty "
             "migration; distinct by (config, old script, new script)")
SCRIPT_RULE = ("well-formed DDL scripts: random walks of 1..14 statements from the empty schema over createTable / addColumn [FIRST|AFTER] / "
               "dropColumn / modifyColumn / renameColumn / addPk / addFk / dropFk / createIndex [USING] / dropIndex / renameIndex / dropTable, "
               "multi-table with positional adds interleaved across tables; each loaded in one call, one statement per call (random keyword case "
               "and type aliases) and a random 3-way split; then a malformed text (5 kinds) must be refused without changing the model; hand-written "
               "witness scripts first. non-trivial = more than one statement; distinct by (config, script)")
EXPORT_RULE = ("export suite: the full MySQL type list (17 types) with and without DEFAULT; several foreign keys between the same tables and a self "
               "reference; keys/columns/tables created and dropped again; random schemas (1..5 tables, comments, enum, reserved-word names, 0..3 "
               "foreign keys per table) x table selections {all, subset, reordered with duplicates and unknown names, only unknown} x 3 dialects. "
               "Every case: MermaidJsErd / MermaidJsLive / ArvoSchema texts = Lean model; ERD and Avro field arrays re-derived from the reference "
               "schema; Live URL decoded independently; every Avro document parsed with encoding/json. non-trivial = every case; distinct by "
               "(config, schema, selection)")
STRUCT_RULE = ("struct suite: Go source with 120 (quick) / 1200 (thorough) generated struct types is compiled per run: 1..8 exported fields with "
               "acronym-style names, all supported Go types (13 primitives, 6 sql.Null*, nil / non-nil pointers, nested structs, []byte), every tag "
               "kind alone and combined (column[,previous], type, primary_key, auto_increment, not_null / null, default, comment, index, unique, "
               "index:name, unique:name, index_type, embedded, squash, embedded_prefix, '-'), nested embedded structs to depth 2, TableName methods, "
               "x dialect x keyword case x comment generation x plural naming x custom tag key. Every case: SqlBuilder.AddTable text = Lean model; the "
               "text is parsed by the independent grammar, executed on the reference engine and compared with the expected schema derived from the "
               "structured tags; FromObjects must succeed and its dump / HashValue equal the model's (reader on the builder output). non-trivial = "
               "every struct; distinct by declaration")
PAIR_TB = [
    "hand-written model Impl/{Element,Diff,Emit,Render,ReaderMysql}.lean, tied by correspondence on generated pairs only",
    "regenerated facts: statement templates of sql-templates/*.go (factgen, go/ast) are the ones the model renders with",
    "regenerated facts (every property but C17; Props/Tie*.lean): the control skeleton of every function the property's hand-written model was written from (conditions, branches, loops, early exits, selector calls; factgen skeleton.go) equals the recorded one",
    "third-party parsers (pingcap/parser etc.): type canonicalisation, option restore text and visitor order are assumptions validated by the correspondence",
    "postgres reader glue modelled (Impl/ReaderPg.lean); sqlite reader glue modelled for CREATE TABLE / CREATE INDEX without DEFAULT only, the rest answers 'unmodelled' and is judged by the reference engine on the Go output only",
    "reference engine Spec/Exec.lean and grammar Spec/Grammar.lean (MySQL rules, read not proved)",
]
PAIR_ASSUME = ["scripts are well-formed on the reference engine", "columns present on both sides keep their relative order",
               "old is not re-used after Diff", "one dialect and one option set per process run of the harness pair"]

PROPS = {
    "C16": {
        "level": "proof",
        "lean_modules": ["SqlizeModel.Props.TieStrGo", "SqlizeModel.Props.C16", "SqlizeModel.Props.TieUtilsStr", "SqlizeModel.Props.TieBuilder"],
        "theorems": ["Sqlize.Tie.translated_is_model", "Sqlize.Tie.translated_obeys_rules", "Sqlize.Tie.translated_no_collision", "Sqlize.Tie.gen_nextIsLower", "Sqlize.Tie.gen_fold", "Sqlize.C16.main", "Sqlize.C16.noCollision", "Sqlize.Tie.utils_str_skeleton_as_modelled", "Sqlize.Tie.builder_skeleton_as_modelled"],
        "suites": [{"name": "snake"}],
        "rule": "exhaustive strings over {a,s,B,1,_} up to length 6 (quick) / 9 (thorough) + random ASCII identifiers "
                "of length 1..25 biased to caps runs and final 's', + the builder route (column names AddTable prints for one-field structs with fixed and random exported field names, "
                "table names GetTableName gives named struct types with and without plural naming, the referenced table of an unregistered foreign-key target); every case: utils.ToSnakeCase(input) / the name the builder printed compared with the "
                "Lean model Snake.toSnake and the executable C16 predicate SnakeSpec.snakeSpecOK evaluated on the Go output; "
                "non-trivial = output differs from input; distinct by input",
        "trusted_base": COMMON_TB + [
            "hand-written model Impl/Snake.lean of utils.ToSnakeCase, tied (a) by the translator: Generated/StrGo.lean is regenerated from utils/str.go on every run (factgen translate.go: runes/bytes as code points, the loop as a fold) and proved equal to the model on ASCII input (Tie.translated_is_model), (b) by correspondence on the enumerated/generated inputs",
            "the translator's conventions (translate.go header): byte(x) = x % 256, strings as lists of code points, ints as Nat; forms outside its fragment are refused",
            "ASCII input only: Go truncates non-ASCII runes to bytes, which the model does not represent",
        ],
        "assumptions": ["identifiers are ASCII (Go identifiers of exported struct fields used by the builder)"],
        "explanation": "C16.main proves, for every input list of characters, that the model of ToSnakeCase is a marking of the "
                       "lower-cased input obeying the placement rules, idempotent, and accepted by the executable predicate; "
                       "C16.noCollision proves loss-freeness up to case/underscores. The model is tied to the source by a translator: the five functions of utils/str.go are translated to Lean on every run "
                       "and Tie.translated_is_model proves the translated ToSnakeCase equal to the model for every ASCII input, so the theorems hold of the code as it reads now; a changed function either keeps the proof (harmless rewrite: "
                       "`r >= 'a'` re-spelled `'a' <= r`) or breaks it (`r < 'z'`), and then the correspondence supplies the failing input.",
    },

    "C01": {
        "level": "proof",
        "lean_modules": ["SqlizeModel.Props.C01", "SqlizeModel.Proofs.ScopeB", "SqlizeModel.Props.TieElement", "SqlizeModel.Props.TieApiLoad"],
        "theorems": ["Sqlize.C01.columns", "Sqlize.Abs.columns_up", "Sqlize.Abs.Merge.merge_correct", "Sqlize.Abs.emitUp_correct", "Sqlize.C01.printed_columns", "Sqlize.walkCols_up_refines", "Sqlize.C01.diffed_columns", "Sqlize.Table.diffCols2_names", "Sqlize.Table.diff_cols_tagged", "Sqlize.C01.columns_from_scripts", "Sqlize.columns_end_to_end",
                     "Sqlize.C01.indexes_and_keys_from_scripts", "Sqlize.elems_end_to_end", "Sqlize.Abs.Idx.emit_correct", "Sqlize.Abs.Idx.emitKeep_correct",
                     "Sqlize.Table.walkIdx_refines", "Sqlize.Table.walkFk_refines", "Sqlize.Table.diff_elems",
                     "Sqlize.C01.indexes_with_dropped_columns", "Sqlize.Abs.Idx.plan_correct", "Sqlize.Abs.Idx.emitSup_correct", "Sqlize.Abs.Idx.dropCols_idxs",
                     "Sqlize.Table.walkIdx_refines_sup", "Sqlize.Spec.execAll_wf",
                     "Sqlize.C01.equal_column_untouched", "Sqlize.Table.walkCols_about", "Sqlize.Table.diffCols1_unchanged_mem",
                     "Sqlize.C01.schema_on_reference_engine", "Sqlize.schema_spec_up", "Sqlize.table_stmts_justified", "Sqlize.execAll_groups", "Sqlize.Migration.migrate_groups", "Sqlize.created_table_spec", "Sqlize.exec_added_idxs", "Sqlize.exec_added_fks", "Sqlize.table_spec_up_any", "Sqlize.table_spec_up_fk_any", "Sqlize.fk_stmts_justified", "Sqlize.Abs.Idx.emitKeepSup_correct", "Sqlize.Table.walkFk_refines_sup", "Sqlize.fks_with_drops_end_to_end", "Sqlize.execAll_fkwf", "Sqlize.execAll_fk",
                     "Sqlize.C01.table_on_reference_engine", "Sqlize.table_spec_up", "Sqlize.execAll_of_colExecAll_full", "Sqlize.exec_idx_step", "Sqlize.execAll_idx", "Sqlize.Spec.execAll_pkin", "Sqlize.Table.walkCols_dropNames",
                     "Sqlize.C01.columns_on_reference_engine", "Sqlize.columns_spec_up", "Sqlize.colExecAll_of_abs", "Sqlize.colExecAll_set", "Sqlize.execAll_of_colExecAll", "Sqlize.added_column_def", "Sqlize.Table.walkCols_stmtCols",
                     "Sqlize.C01.changed_column_modified", "Sqlize.perm_of_not_changed", "Sqlize.ckey_inj", "Sqlize.Table.diff_like", "Sqlize.Table.walkCols_modify",
                     "Sqlize.C01.equal_primary_key_untouched", "Sqlize.C01.tables_from_scripts", "Sqlize.Migration.migrate_tbl",
                     "Sqlize.Migration.diffTables2_appends", "Sqlize.proved_up", "Sqlize.Tie.element_skeleton_as_modelled", "Sqlize.Tie.api_load_skeleton_as_modelled", "Sqlize.C01.schema_on_reference_engine_either_setting", "Sqlize.schema_up_any", "Sqlize.execAll_strip", "Sqlize.ckey_inj", "Sqlize.dqChars_inj"],
        "suites": [{"name": "pair"}],
        "corr_points": ["load-old", "load-new", "state-old", "state-new", "Diff", "state-diff", "StringUp"],
        "rule": PAIR_RULE,
        "trusted_base": COMMON_TB + PAIR_TB,
        "assumptions": PAIR_ASSUME,
        "explanation": "Proved for all inputs: the column-order core (Sqlize.C01.columns); its refinement from the Impl walk and from Table.Diff's loops "
                       "(printed_columns, diffed_columns); end to end from two scripts of any length through the MySQL reader model, Migration.Diff and the "
                       "walks: the ADD/DROP COLUMN statements turn the reference engine's old column order into the new one (columns_from_scripts), the "
                       "CREATE/DROP INDEX statements its old index list into the new one up to order, the ADD/DROP foreign-key statements its old key list "
                       "into the new one unless a key is redefined in place (indexes_and_keys_from_scripts); with dropped columns the index statements printed with "
                       "the dropped-column list turn what the DROP COLUMNs leave of the old index list into the new one, unless an index is redefined while all its "
                       "old columns are dropped = the recorded finding (indexes_with_dropped_columns); a column with the same type and options (up to order) on both "
                       "sides gets no column statement in either direction (equal_column_untouched, no inline PRIMARY KEY option), and conversely a column whose type or "
                       "options differ gets a MODIFY COLUMN the reference engine reads as the new side's column, the old side's on the way down "
                       "(changed_column_modified); composed on the reference engine itself: Spec.execAll of the printed ADD / DROP / MODIFY COLUMN statements on the old schema is well-formed at every "
                       "step, leaves the table with a column list equal to the new side's (names, order, types, options up to order) and every other table untouched "
                       "(columns_on_reference_engine; no inline PRIMARY KEY, common columns in the same relative order), and with the index statements after them the table also "
                       "ends with the new side's indexes up to order and its primary key (table_on_reference_engine; same key on both sides, outside the recorded finding); "
                       "and for whole schemas of any size, foreign keys included (no key found on both sides of a table redefined = the recorded finding foreign-key-redefined): the printed up migration (CREATE TABLE + indexes + key + ADD CONSTRAINT for new tables, column, index and foreign-key statements for "
                       "common tables — the key walk with its dropped-column list is Abs.Idx.emitKeepSup and runs from what DROP COLUMN leaves of the old keys, table_spec_up_fk_any —, DROP TABLE for old ones) executed by Spec.execAll on the old schema is well-formed at every step and ends in a schema DB.equiv to the new one "
                       "and every printed statement acts on an element that differs between the two schemas: the executable predicate Spec.c01 (migrates + allJustified, referential checks aside) "
                       "returns ok (schema_on_reference_engine: the property itself on that scope). Not proved: a changed primary key (recorded finding), a foreign key redefined under its name (recorded finding), the engine's referential checks (statement order across tables, recorded finding), "
                       "other dialects; the full statement Sqlize.C01.Statement(_partial) is decided on "
                       "every run by correspondence (model = code on state and text) plus the "
                       "executable predicate Spec.c01 (reference DDL engine) on the migration text the Go code printed.",
    },
    "C02": {
        "level": "proof",
        "lean_modules": ["SqlizeModel.Props.C02", "SqlizeModel.Proofs.ScopeB", "SqlizeModel.Props.TieElement", "SqlizeModel.Props.TieApiLoad"],
        "theorems": ["Sqlize.C02.columns", "Sqlize.C02.up_down_identity", "Sqlize.Abs.emitDown_correct", "Sqlize.C02.printed_columns", "Sqlize.walkCols_down_refines", "Sqlize.C02.diffed_columns", "Sqlize.C02.columns_from_scripts",
                     "Sqlize.C02.indexes_and_keys_from_scripts", "Sqlize.Abs.Idx.emitDown_correct", "Sqlize.Abs.Idx.emitDownKeep_correct",
                     "Sqlize.Table.walkIdx_refines_down", "Sqlize.Table.walkFk_refines_down",
                     "Sqlize.C02.indexes_and_keys_up_then_down", "Sqlize.Abs.Idx.up_then_down", "Sqlize.Abs.Idx.execAll_perm",
                     "Sqlize.C02.tables_from_scripts", "Sqlize.Migration.migrate_tbl_down", "Sqlize.C02.changed_column_reverted",
                     "Sqlize.C02.columns_on_reference_engine", "Sqlize.columns_spec_down", "Sqlize.removed_column_def", "Sqlize.Table.diffCols2_mem_full",
                     "Sqlize.C02.indexes_with_dropped_columns", "Sqlize.Abs.Idx.emitDownSup_correct", "Sqlize.Table.walkIdx_refines_down_sup",
                     "Sqlize.equal_pk_untouched_down", "Sqlize.table_spec_down_any", "Sqlize.table_spec_down_fk_any", "Sqlize.fk_stmts_justified_down", "Sqlize.Abs.Idx.emitDownKeepSup_correct", "Sqlize.Table.walkFk_refines_down_sup", "Sqlize.fks_with_drops_end_to_end_down", "Sqlize.execAll_fkwf", "Sqlize.table_stmts_justified_down", "Sqlize.loaded_table_spec",
                     "Sqlize.schema_spec_down", "Sqlize.C02.schema_on_reference_engine", "Sqlize.C02.down_of_a_whole_schema", "Sqlize.C02.up_then_down_on_reference_engine", "Sqlize.proved_down", "Sqlize.Tie.element_skeleton_as_modelled", "Sqlize.Tie.api_load_skeleton_as_modelled", "Sqlize.C02.schema_on_reference_engine_either_setting", "Sqlize.schema_down_any"],
        "suites": [{"name": "pair"}],
        "corr_points": ["load-old", "load-new", "state-old", "state-new", "Diff", "state-diff", "StringUp", "StringDown"],
        "rule": PAIR_RULE,
        "trusted_base": COMMON_TB + PAIR_TB,
        "assumptions": PAIR_ASSUME,
        "explanation": "Proved for all inputs: the down walk restores the old column order exactly (Sqlize.C02.columns) and up-then-down is the "
                       "identity on the column list; end to end from two scripts through the MySQL reader model, Migration.Diff and the down walks: the column "
                       "statements restore the reference engine's old column order (columns_from_scripts), the CREATE/DROP INDEX statements turn its new index "
                       "list back into the old one up to order (a redefined index is re-created as the old side defines it), the foreign-key statements its new "
                       "key list into the old one unless a key is redefined in place (indexes_and_keys_from_scripts); a changed column is modified back to the old definition "
                       "(changed_column_reverted); composed on the reference engine: Spec.execAll of the printed down column statements on the new schema is well-formed at every step and "
                       "leaves the table with a column list equal to the old side's, other tables untouched (columns_on_reference_engine); the index statements printed when the down "
                       "migration drops columns are Abs.Idx.emitDownSup and turn what DROP COLUMN leaves of the new index list into the old one (indexes_with_dropped_columns); and for whole schemas, foreign keys included (no key redefined under its name), without "
                       "inline PRIMARY KEY, tables on both sides order-compatible with the same primary key and outside the recorded region: the executable predicate Spec.c02 itself "
                       "returns ok on the printed down migration (schema_on_reference_engine), and with the C01 theorem down undoes up on the reference engine (up_then_down_on_reference_engine). Remaining parts of "
                       "Sqlize.C02.Statement_partial (a changed primary key, the engine's referential checks, other dialects) are decided by correspondence + Spec.c02 on the Go output.",
    },
    "C03": {
        "level": "proof",
        "lean_modules": ["SqlizeModel.Props.C03", "SqlizeModel.Proofs.ScopeB", "SqlizeModel.Props.TieElement", "SqlizeModel.Props.TieApiLoad"],
        "theorems": ["Sqlize.C03.unchanged_prints_nothing", "Sqlize.C03.same_options_unchanged", "Sqlize.migrate_quiet",
                     "Sqlize.C03.equal_content_empty", "Sqlize.C03.self_diff_empty", "Sqlize.C03.same_script_empty", "Sqlize.C03.equal_schemas_from_scripts",
                     "Sqlize.hasChangedOptions_of_perm", "Sqlize.ReaderMysql.step_plain", "Sqlize.table_same", "Sqlize.Table.diff_same", "Sqlize.Migration.diff_same", "Sqlize.C03.schema_on_reference_engine", "Sqlize.C03.equal_table_never_justified", "Sqlize.schema_c03", "Sqlize.dbEquiv_of_equiv", "Sqlize.proved_both", "Sqlize.Tie.element_skeleton_as_modelled", "Sqlize.Tie.api_load_skeleton_as_modelled", "Sqlize.C03.schema_on_reference_engine_either_setting", "Sqlize.schema_c03_any"],
        "suites": [{"name": "pair"}, {"name": "struct", "kind": "struct"}],
        "corr_points": ["load-old", "load-new", "state-old", "state-new", "Diff", "state-diff", "StringUp", "StringDown", "StringUp-2nd"],
        "rule": PAIR_RULE,
        "trusted_base": COMMON_TB + PAIR_TB,
        "assumptions": PAIR_ASSUME,
        "explanation": "Proved over the Impl model for all states: tables whose elements carry no action print nothing in either direction, for every "
                       "dialect/case/field-order setting, and stay quiet (Sqlize.C03.unchanged_prints_nothing); Diff of two consistent, freshly loaded "
                       "models with equal live content (Table.Same: namesake columns/indexes compare equal, same fk names; order and index-type "
                       "spelling free) returns and leaves nothing to print in either direction (Sqlize.C03.equal_content_empty, self_diff_empty). "
                       "Two different scripts with equivalent reference schemas (no inline PRIMARY KEY option, table-level keys covered; column / statement / option order, "
                       "ALTER histories and index-type spelling free) load into such models: empty migration in both directions "
                       "(Sqlize.C03.equal_schemas_from_scripts). Both clauses as the executable predicate: in the scope of the whole-schema theorems of C01 and C02 "
                       "Spec.c03 returns ok on the printed migrations (schema_on_reference_engine) - equal schemas give two empty migrations, and otherwise no statement targets a table that is "
                       "equivalent on both sides, since every printed statement is justified by a difference and a statement about an equivalent table never is (equal_table_never_justified). "
                       "With an inline PRIMARY KEY (two representations of a key: recorded finding), and foreign keys that is decided "
                       "by correspondence + Spec.c03 on the Go output.",
    },
    "C13": {
        "level": "proof",
        "lean_modules": ["SqlizeModel.Props.C13", "SqlizeModel.Props.TieElement", "SqlizeModel.Props.TieApiLoad"],
        "theorems": ["Sqlize.C13.default_order", "Sqlize.C13.ignore_same_statements", "Sqlize.C13.ignore_no_position", "Sqlize.C13.ignore_appends", "Sqlize.C13.printed_ignore", "Sqlize.walkCols_up_ignore_refines", "Sqlize.C13.columns_from_scripts", "Sqlize.columns_end_to_end_ignore", "Sqlize.Tie.element_skeleton_as_modelled", "Sqlize.Tie.api_load_skeleton_as_modelled", "Sqlize.C13.option_changes_positions_only", "Sqlize.C13.option_predicates", "Sqlize.Migration.strip_migrate", "Sqlize.C13.stripped_migration_same_schema", "Sqlize.exec_strip", "Sqlize.DBR.equivUnordered"],
        "suites": [{"name": "pair"}, {"name": "history"}],
        "corr_points": ["load-old", "load-new", "state-old", "state-new", "Diff", "state-diff", "StringUp", "StringDown"],
        "rule": PAIR_RULE,
        "trusted_base": COMMON_TB + PAIR_TB,
        "assumptions": PAIR_ASSUME,
        "explanation": "Proved for all column lists: default setting ends in the models' order; with the option the walk emits the same statements "
                       "without positional clause, and executing them keeps surviving columns in place and appends the added ones. On the implementation model and for every input, dialect model and keyword case, with no hypothesis: the option only removes positional clauses from what modelUp / modelDown print (option_changes_positions_only), so the executable predicates c13Same and c13NoPositions hold of the model's output (option_predicates).",
    },

    "C05": {
        "level": "proof",
        "lean_modules": ["SqlizeModel.Proofs.ScopeB", "SqlizeModel.Props.C05", "SqlizeModel.Props.TieParser", "SqlizeModel.Props.TieElement", "SqlizeModel.Props.TieApiLoad"],
        "theorems": ["Sqlize.proved_dump", "Sqlize.C05.dump_on_reference_engine", "Sqlize.C05.split_invariant", "Sqlize.C05.calls_invariant", "Sqlize.C05.rejected_unchanged", "Sqlize.C05.parse_before_edit",
                     "Sqlize.C05.load_keeps_inv", "Sqlize.C05.rename_onto_existing_breaks", "Sqlize.readScript_inv", "Sqlize.fromString_inv", "Sqlize.C05.names_and_positions", "Sqlize.C05.names_positions_types", "Sqlize.C05.names_positions_types_options", "Sqlize.ReaderMysql.step_rel", "Sqlize.ReaderMysql.fidelity",
                     "Sqlize.C05.indexes_and_foreign_keys", "Sqlize.ReaderMysql.step_elems", "Sqlize.Table.removeColumn_raw",
                     "Sqlize.C05.primary_key_table_level", "Sqlize.ReaderMysql.step_pk", "Sqlize.pkOf_strip",
                     "Sqlize.C05.reader_dispatch_as_modelled", "Sqlize.C05.postgres_fragment", "Sqlize.ReaderPg.step_rel", "Sqlize.ReaderPg.exec_bare", "Sqlize.Table.addColumn_merge_pg", "Sqlize.Tie.parser_skeleton_as_modelled", "Sqlize.Tie.element_skeleton_as_modelled", "Sqlize.Tie.api_load_skeleton_as_modelled"],
        "suites": [{"name": "script"}],
        "corr_points": ["load", "state", "dump"],
        "rule": SCRIPT_RULE,
        "trusted_base": COMMON_TB + PAIR_TB,
        "assumptions": ["scripts are well-formed on the reference engine and start from the empty schema"],
        "explanation": "Proved for all inputs: the MySQL reader model simulates the reference engine on tables, column names and column positions "
                       "for scripts of any length (Sqlize.C05.names_and_positions: one commuting square per statement kind; vocabulary without RENAME COLUMN / RENAME INDEX), "
                       "on column types and option kinds/values (names_positions_types_options), and on indexes and foreign keys, every record live "
                       "(Sqlize.C05.indexes_and_foreign_keys), and on primary keys declared at table level (primary_key_table_level; an inline key is kept as a "
                       "column option: two representations, recorded finding); "
                       "the Postgres reader glue simulates the reference engine on its loss-free fragment (postgres_fragment: option-free CREATE TABLE / ADD COLUMN, "
                       "DROP COLUMN, ALTER COLUMN TYPE, ALTER COLUMN DROP NOT NULL on unquoted names: tables, column names, positions, types); "
                       "every load (3 reader models, any split into calls) keeps slices and position maps consistent "
                       "(Sqlize.C05.load_keeps_inv, side condition: renames onto fresh names); split invariance of the reader model (state incl. cursor and pending position) and the rejection "
                       "clause (by definition + regenerated fact that every Parser* function parses before it edits); the readers' dispatch tables (statement kind -> model edits, "
                       "re-extracted from the three reader files on every run) are the ones the reader models were written from (reader_dispatch_as_modelled). The fidelity clause "
                       "(Sqlize.C05.Statement_partial) is decided by correspondence on white-box state + dump, and by the executable predicate "
                       "(dump -> grammar -> reference engine = independent reading of the script) on every case.",
    },
    "C09": {
        "level": "proof",
        "lean_modules": ["SqlizeModel.Props.C09", "SqlizeModel.Props.TieParser", "SqlizeModel.Props.TieElement", "SqlizeModel.Props.TieApiLoad"],
        "theorems": ["Sqlize.C09.column_up_total", "Sqlize.C09.column_down_total", "Sqlize.C09.index_up_total",
                     "Sqlize.C09.load_never_panics", "Sqlize.C09.primitives_total", "Sqlize.readScript_noPanic",
                     "Sqlize.C09.diff_and_print_never_panic", "Sqlize.C09.load_and_print_never_panic", "Sqlize.Table.diff_total", "Sqlize.Migration.migrate_total", "Sqlize.Tie.parser_skeleton_as_modelled", "Sqlize.Tie.element_skeleton_as_modelled", "Sqlize.Tie.api_load_skeleton_as_modelled"],
        "suites": [{"name": "script"}, {"name": "pair"}],
        "corr_points": ["load", "state", "dump", "dump-down", "load-old", "load-new", "Diff", "StringUp", "StringDown"],
        "rule": SCRIPT_RULE + " | " + PAIR_RULE + " | C09: any panic recovered from a sqlize frame (load, state, dump up/down, hash, split loads, "
                "rejection of malformed text, Diff, StringUp/StringDown) on a well-formed input is a violation; a Go panic where the model "
                "returns a value is also a correspondence break",
        "trusted_base": COMMON_TB + PAIR_TB + ["panics inside the third-party parsers on arbitrary bytes cannot be modelled: that clause is searched (malformed stream), not proved"],
        "assumptions": ["scripts are well-formed on the reference engine"],
        "explanation": "Proved for all inputs: loading never panics in the model — from the empty model every sequence of loads (3 reader models) "
                       "returns or fails with a listed non-panic error, because the map invariant is preserved and makes every looked-up position a "
                       "valid index (Sqlize.C09.load_never_panics). Proved for all states: the emitters' explicit panic sites are exactly (create of an empty table, redefined index of an "
                       "unprintable kind); for two engine-accepted MySQL scripts of any length Diff, MigrationUp and MigrationDown all return in the model "
                       "(Sqlize.C09.diff_and_print_never_panic: no nil type compared, swapOrder always forward, every index record printable); other dialects and the tie to the Go code are decided by correspondence: "
                       "the model returns Except.error exactly where Go panics, and every generated case is checked for recovered panics.",
    },

    "C07": {
        "level": "proof",
        "lean_modules": ["SqlizeModel.Proofs.ScopeB", "SqlizeModel.Props.C07", "SqlizeModel.Props.TieElement", "SqlizeModel.Props.TieApiHash"],
        "theorems": ["Sqlize.proved_hash", "Sqlize.C07.different_schema_different_value", "Sqlize.C07.different_schema_different_value_from_scripts", "Sqlize.hashOf_inj", "Sqlize.tableHashOf_inj", "Sqlize.intercalate_inj", "Sqlize.C07.empty_is_zero", "Sqlize.C07.column_order_irrelevant", "Sqlize.C07.same_tables_same_value", "Sqlize.C07.case_option_irrelevant", "Sqlize.sortStrs_perm", "Sqlize.C07.value_is_a_function_of_the_schema", "Sqlize.C07.same_schema_same_value_from_scripts", "Sqlize.hash_of_schema", "Sqlize.Table.hashWith_spec", "Sqlize.Index.hashInput_live", "Sqlize.Tie.element_skeleton_as_modelled", "Sqlize.Tie.api_hash_skeleton_as_modelled"],
        "suites": [{"name": "hash", "repeat_processes": 1, "repeat_processes_thorough": 5}, {"name": "script"}],
        "corr_points": None,
        "rule": "hash suite: random schemas (1..4 tables with indexes) x presentations {canonical, one statement per call, alias spelling + keyword "
                "case, other keyword-case option, permuted columns, create+drop detour of a column/index/table} must give one HashValue equal to the "
                "Lean model's (real md5 implemented in Lean); single-element edits {rename/retype column, add/drop index, flip uniqueness, other "
                "index column, move a column to another table} must give a different one; empty schema = 0; the whole suite is re-run in fresh "
                "processes and must be byte-identical. script suite: model hash = Go hash after every random script. non-trivial = every case; "
                "distinct by (config, schema)",
        "trusted_base": COMMON_TB + PAIR_TB + ["MD5 is implemented in Lean (Base/MD5.lean) for the correspondence only; theorems are for an arbitrary digest function"],
        "assumptions": ["md5 collision-freeness only matters for the 'different schema => different value' direction, which is checked per case, not proved"],
        "explanation": "Proved for every digest function: empty = 0, independence of column/index order, of keyword-case option, congruence over "
                       "tables; and from scripts (value_is_a_function_of_the_schema): for every script the reference engine accepts (element-safe vocabulary, no inline PRIMARY KEY, MySQL reader model) "
                       "the value of the loaded model is DB.hashOf of the reference schema - per table, in table order, the columns' names and types, the primary key and the indexes, nothing else - so two scripts "
                       "describing such schemas have the same value whatever the route (same_schema_same_value_from_scripts). The converse (different schema, different value) is decided per edit; "
                       "tied by exact value correspondence (md5 in Lean) on every presentation and edit. The other direction (different_schema_different_value, Proofs/HashInj) under an explicit collision-freeness hypothesis on the finitely many pre-images involved: equal values force the same number of tables and, table by table in order, the same multisets of column pre-images (escaped name + type) and of key / index pre-images.",
    },

    "C08": {
        "level": "proof",
        "lean_modules": ["SqlizeModel.Props.C08", "SqlizeModel.Props.TieElement", "SqlizeModel.Props.TieApiLoad", "SqlizeModel.Props.TieApiHash", "SqlizeModel.Props.TieApiExport", "SqlizeModel.Props.TieApiVersion"],
        "theorems": ["Sqlize.C08.calls_pure", "Sqlize.C08.pure_of_inv", "Sqlize.C08.arrange_identity", "Sqlize.C08.up_pure", "Sqlize.C08.down_pure", "Sqlize.migrate_state_of_stable", "Sqlize.sortByVal_canon",
                     "Sqlize.C08.loaded_pure", "Sqlize.C08.diffed_pure", "Sqlize.C08.diffed_pure_simple", "Sqlize.loadAndDiff_inv'", "Sqlize.Migration.diff_inv", "Sqlize.readScript_noPending", "Sqlize.Tie.element_skeleton_as_modelled", "Sqlize.Tie.api_load_skeleton_as_modelled", "Sqlize.Tie.api_hash_skeleton_as_modelled", "Sqlize.Tie.api_export_skeleton_as_modelled", "Sqlize.Tie.api_version_skeleton_as_modelled"],
        "suites": [{"name": "calls", "repeat_processes": 1, "repeat_processes_thorough": 5}, {"name": "pair", "repeat_processes": 1, "repeat_processes_thorough": 3}, {"name": "script"}],
        "corr_points": ["StringUp", "StringDown", "StringUp-2nd", "state-diff", "state-after-outputs", "dump", "dump-down"],
        "rule": "calls suite: states from the pair space (loaded or diffed, 3 dialects x case x field-order option); all ordered pairs (quick) / "
                "triples (thorough) of the 8 output methods on 30-40 states plus random sequences of 3..7 calls, some preceded by output calls on both "
                "sides *before* Diff; each call's bytes are compared with the bytes a fresh instance in the same state returns. Both suites are "
                "re-run in fresh processes (fresh map-iteration seeds) and must be byte-identical. pair suite: StringUp, StringDown, StringUp again "
                "against the model. non-trivial = every sequence; distinct by (state, sequence)",
        "trusted_base": COMMON_TB + PAIR_TB + ["MermaidJs*/ArvoSchema are compared with a fresh instance's output here (their models are in C14/C15)"],
        "assumptions": ["old is not re-used after Diff"],
        "explanation": "Proved: under the map invariant Arrange is the identity for every map iteration order, hence output calls return the state "
                       "unchanged and every call sequence is pure (Sqlize.C08.pure_of_inv); every state reached by loading and Diff satisfies the invariant "
                       "(Sqlize.C08.loaded_pure / diffed_pure: all primitives, reader steps, Table.Diff and Migration.Diff preserve it; side conditions: renames onto fresh "
                       "names, positional adds of new columns). The tie to the Go code and process-independence are decided by the calls / script suites "
                       "(white-box maps, state after outputs) and fresh-process repeats.",
    },

    "C12": {
        "level": "proof",
        "lean_modules": ["SqlizeModel.Props.C12", "SqlizeModel.Props.TieApiVersion", "SqlizeModel.Props.TieTemplates"],
        "theorems": ["Sqlize.C12.up_zero", "Sqlize.C12.up_nonzero", "Sqlize.C12.down_zero", "Sqlize.C12.down_nonzero", "Sqlize.C12.with_version", "Sqlize.C12.call_shape", "Sqlize.C12.default_table_skipped", "Sqlize.Tie.api_version_skeleton_as_modelled", "Sqlize.Tie.templates_skeleton_as_modelled"],
        "suites": [{"name": "version"}],
        "corr_points": None,
        "rule": "grid: 3 dialects x 2 keyword cases x 10 table names (default, custom, blanks, quotes, '%s', non-ASCII, empty) x 7 versions (0, +-1, 42, a "
                "timestamp, MaxInt64, MinInt64) x 2 dirty values on an empty instance; 200 (2000) diffed instances from the pair space with random "
                "(table, version, dirty); 12 histories containing the bookkeeping table (default and custom name) on the old / new / both sides. Every "
                "case: Go StringUp/DownWithVersion = model (regenerated templates) and = plain migration + newline + declarative statement of "
                "Spec/Version.lean. non-trivial = every case; distinct by input tuple",
        "trusted_base": COMMON_TB + ["regenerated facts: version templates per dialect and the argument order of the four fmt.Sprintf calls in sqlize.go (factgen)",
                                     "fmt.Sprintf %s %d %t modelled by Impl/Render.sprintf; strings.ToLower modelled for ASCII"],
        "assumptions": ["table names are byte strings inserted verbatim; versions are int64"],
        "explanation": "Proved over the regenerated templates for every table name / version / dirty / dialect / case: the model's statements are exactly "
                       "the declarative ones; tied by the full grid and random diffed instances. The exclusion clause holds for the default name "
                       "(theorem) and fails for a configured name (recorded finding).",
    },

    "C11": {
        "level": "proof",
        "lean_modules": ["SqlizeModel.Props.C11", "SqlizeModel.Proofs.FilesOrder", "SqlizeModel.Props.TieUtilsFile", "SqlizeModel.Props.TieApiFiles"],
        "theorems": ["Sqlize.Files.successive_writes_reload_in_order", "Sqlize.Files.read_back_in_write_order", "Sqlize.Files.name_lt_of_ts_lt", "Sqlize.C11.sanitize_charset", "Sqlize.C11.nothing_when_empty", "Sqlize.C11.files_written", "Sqlize.C11.read_filter", "Sqlize.C11.read_sorted", "Sqlize.C11.sort_perm", "Sqlize.Tie.utils_file_skeleton_as_modelled", "Sqlize.Tie.api_files_skeleton_as_modelled"],
        "suites": [{"name": "files"}],
        "corr_points": None,
        "rule": "scratch directories under /verif/.work (removed afterwards): 17 migration names (blanks, dashes, tabs/newlines, path separators, dots, "
                "unicode, control bytes, empty, digits) x 5 suffix configurations (default, empty down suffix, equal suffixes, custom) x "
                "{WriteFiles, WriteFilesVersion, WriteFilesWithVersion, both-empty} with a foreign file and a sub-directory present; 5 read cases with "
                "hidden files, other suffixes, sub-directories, down files, backup files; missing folder for read and write; sequences of 3 writes one "
                "second apart whose names sort against the write order, reloaded and diffed against the models; one same-second pair. Every case: "
                "directory listing = model's file set, and the C11 predicate (count, naming [a-z0-9_], header + text, foreign files untouched, read "
                "set and order). non-trivial = every case; distinct by (name, suffixes, mode)",
        "trusted_base": COMMON_TB + ["OS behaviour (os.ReadDir sorted by name, os.WriteFile, permissions) and time.Now are modelled, validated only by the runs",
                                     "regenerated facts: genDescription, emptyMigration, default suffixes"],
        "assumptions": ["folder exists and is writable unless the case says otherwise", "timestamps of successive writes strictly increase (1 s resolution)"],
        "explanation": "Proved for all names: sanitised name part is [a-z0-9_]*; file set/contents of writeFiles; ReadPath = filter of the name-sorted "
                       "listing; and successive writes reload in write order (successive_writes_reload_in_order): for calls at strictly increasing clock readings of the same width, whatever else the folder holds that the filter rejects "
                       "and whatever order the directory is listed in, ReadPath returns header + migration text of every call in call order. OS and clock are outside the proof (partial by nature); two writes within one second are the recorded finding.",
    },

    "C14": {
        "level": "proof",
        "lean_modules": ["SqlizeModel.Props.C14", "SqlizeModel.Props.TieMermaid", "SqlizeModel.Props.TieApiExport"],
        "theorems": ["Sqlize.C14.blocks_of_the_reference_schema_partial", "Sqlize.C14.blocks_of_the_reference_schema_pg_partial", "Sqlize.erd_blocks_of_rel", "Sqlize.erd_blocks_of_schema", "Sqlize.C14.select_all", "Sqlize.C14.select_named", "Sqlize.C14.line_per_column", "Sqlize.C14.block_per_table", "Sqlize.C14.relation_once", "Sqlize.C14.relation_exists", "Sqlize.C14.live_is_url", "Sqlize.Tie.mermaid_skeleton_as_modelled", "Sqlize.Tie.api_export_skeleton_as_modelled"],
        "suites": [{"name": "export"}],
        "corr_points": ["MermaidJsErd", "MermaidJsLive"],
        "rule": EXPORT_RULE,
        "trusted_base": COMMON_TB + PAIR_TB + ["base64 URL encoding re-implemented in Lean (Base/Base64.lean) for the Live URL"],
        "assumptions": ["identifiers are ASCII"],
        "explanation": "Proved of the model for every state: selection, block/line structure, one relation per linked pair, Live = URL + base64url(ERD). "
                       "Tied by exact text correspondence and by re-deriving the ERD from the reference schema on every case.",
    },
    "C15": {
        "level": "proof",
        "lean_modules": ["SqlizeModel.Proofs.ScopeB", "SqlizeModel.Props.C15", "SqlizeModel.Props.TieAvro", "SqlizeModel.Props.TieApiExport"],
        "theorems": ["Sqlize.proved_avro", "Sqlize.C15.export_of_the_reference_schema", "Sqlize.avro_of_schema", "Sqlize.cols_fields", "Sqlize.field_of_spec", "Sqlize.C15.other_dialects_nothing", "Sqlize.C15.one_document_per_table", "Sqlize.C15.one_field_per_column", "Sqlize.C15.nullable_iff_default", "Sqlize.Tie.avro_skeleton_as_modelled", "Sqlize.Tie.api_export_skeleton_as_modelled"],
        "suites": [{"name": "export"}],
        "corr_points": ["ArvoSchema"],
        "rule": EXPORT_RULE,
        "trusted_base": COMMON_TB + PAIR_TB + ["encoding/json marshalling of the Go values (field order, sorted map keys, omitempty) is modelled as text; every Go document is additionally parsed with encoding/json by the harness",
                                               "MySQL type classes (EvalType) are re-derived from the canonical type text"],
        "assumptions": ["identifiers need no JSON escaping beyond quote and backslash"],
        "explanation": "Proved of the model for every state: nothing for non-mysql dialects, one document per selected table in load order, one field per "
                       "column in table order, nullable union exactly when the column has a default. Tied by exact JSON text correspondence on the full "
                       "type list with/without defaults and on random schemas/selections. From scripts (export_of_the_reference_schema, Proofs/AvroScripts): for every script of any length the reference engine accepts (MySQL reader model, column-safe vocabulary), ArvoSchema of the loaded model is, document by document, the export of the reference schema: one document per selected reference table in order, one field per reference column in table order, typed by the class of its type text, nullable exactly when it has a DEFAULT option — the simulation relation Rel carries it; nothing else of the loaded state reaches the export.",
    },

    "C17": {
        "level": "proof",
        "lean_modules": ["SqlizeModel.Props.C17"],
        "theorems": ["Sqlize.C17.interleaving", "Sqlize.C17.only_constructor_writes_globals", "Sqlize.C17.no_go_statements", "Sqlize.C17.package_vars", "Sqlize.C17.written_vars"],
        "suites": [{"name": "race", "binary": "harness-race", "timeout": 3600}],
        "corr_points": None,
        "rule": "race suite (harness built with -race): 6 (quick) / 40 (thorough) rounds; per round all instances (same options: dialect x case x "
                "field-order) are constructed first, then 8 / 16 goroutines each drive their own pair of instances through load, HashValue, "
                "MermaidJsErd, Diff, StringUp, StringDown, StringUpWithVersion, ArvoSchema, MermaidJsLive on workloads from the pair space; every "
                "goroutine's results are compared with a sequential run; a data race reported by the detector (exit 66 / WARNING: DATA RACE) is a "
                "violation. non-trivial = every goroutine job; distinct by (round, job)",
        "trusted_base": COMMON_TB + ["regenerated facts (factgen, go/ast): every assignment to a package-level variable with its enclosing function, every go statement, every package-level var",
                                     "the Go memory model, reflect and the third-party parsers' internals are outside the model; the race detector run validates, it does not prove"],
        "assumptions": ["no constructor (NewSqlize) runs concurrently with other operations", "all instances of a run share the same options"],
        "explanation": "Proved: for every interleaving of per-goroutine operation sequences (operations typed as reading globals and writing only the "
                       "goroutine's own instances) each goroutine observes exactly its sequential results; the typing is justified by regenerated, "
                       "kernel-checked facts (only NewMigration assigns package-level state; no go statements).",
    },

    "C04": {
        "level": "proof",
        "lean_modules": ["SqlizeModel.Props.C04", "SqlizeModel.Proofs.ScopeB", "SqlizeModel.Props.TieElement", "SqlizeModel.Props.TieApiLoad", "SqlizeModel.Props.TieApiFiles"],
        "theorems": ["Sqlize.C04.converges", "Sqlize.C04.next_diff_empty", "Sqlize.C04.down_returns", "Sqlize.C04.history_schema",
                     "Sqlize.C04.model_converges", "Sqlize.C04.model_next_diff_empty", "Sqlize.rounds", "Sqlize.schema_up_vocab", "Sqlize.UpScope.of_equiv",
                     "Sqlize.execAll_textual", "Sqlize.Migration.diff_plain", "Sqlize.Migration.migrate_mem", "Sqlize.Tie.element_skeleton_as_modelled", "Sqlize.Tie.api_load_skeleton_as_modelled", "Sqlize.Tie.api_files_skeleton_as_modelled", "Sqlize.C04.model_down_returns", "Sqlize.rounds_down", "Sqlize.exec_equiv", "Sqlize.execAll_equiv", "Sqlize.exec_nodup", "Sqlize.DBE.of_equiv", "Sqlize.proved_chain", "Sqlize.proved_chain_fingerprint", "Sqlize.proved_chain_down", "Sqlize.C04.model_fingerprint", "Sqlize.rounds_fingerprint", "Sqlize.rounds_ordered", "Sqlize.hashOf_of_equiv", "Sqlize.foldl_stepNames", "Sqlize.execAll_groups_names", "Sqlize.hash_of_schema"],
        "suites": [{"name": "history", "timeout": 3600}],
        "corr_points": None,
        "rule": "history suite: revision sequences M1..Mk (k = 2..8 quick, ..40 thorough) of random schemas and C01 change sets (drop table, drop "
                "indexed column, change options, drop foreign key, several tables at once), starting from an empty history; the real workflow in Go: "
                "load models, load history (accumulated text, or WriteFiles + FromMigrationFolder with one second between writes), Diff, append; after "
                "each step the history is reloaded and diffed against a fresh load of the models (must be empty both ways, equal HashValue); the Lean "
                "driver replays every recorded up migration on the reference engine (must build the models' schema at each step) and the recorded "
                "downs in reverse (must reach the empty schema). Hand-written histories first (among them a new table listed last = inside model_fingerprint, and listed first = the recorded finding). non-trivial = every history; distinct by sequence",
        "trusted_base": COMMON_TB + PAIR_TB + ["the composition theorem assumes the one-step properties (C01, C02, C03, C05, C07) as hypotheses; their proved parts and findings are listed under those properties"],
        "assumptions": ["file timestamps strictly increase (one write per second)", "old is not re-used after Diff"],
        "explanation": "Proved for histories of any length: convergence, empty next diff, equal fingerprint and the way back, as an assume-guarantee "
                       "composition of the one-step properties; and on the implementation model itself, without assuming them (model_converges, model_next_diff_empty): "
                       "for revision lists of any length whose steps are inside the scope of C01.schema_on_reference_engine (MySQL reader model, no inline PRIMARY KEY, no foreign key redefined under its name), "
                       "the history the workflow writes (each printed up migration appended as it reaches the text) is computed without error, is accepted by the reference engine "
                       "statement by statement, describes a schema DB.equiv to the newest revision's, and the next diff is empty both ways; and with the hypotheses of the C02 theorem at every step as well, "
                       "replaying the recorded down migrations newest first from the newest revision's schema is well-formed at every statement and ends in the empty schema (model_down_returns; the steps compose because the reference engine "
                       "respects TableSpec.equiv, exec_equiv); and the fingerprint clause (model_fingerprint): when at every step the tables two consecutive revisions share come first in the same relative order and the new ones after them (ChainOrdered), "
                       "the fingerprint of the history equals the fingerprint of the newest revision, for any digest functions — the whole-schema theorem of C01 carries the order of the tables (namesAfter), HashValue is a function of the reference schema (C07) and equal for equivalent schemas in the same order; "
                       "outside ChainOrdered the clause is false of model and code alike: recorded finding fingerprint-table-order, shown against the real code by the history witness. Outside that scope and for the "
                       "round trip through files: the real multi-step workflow is driven on every run and every recorded migration is "
                       "replayed on the reference engine.",
    },

    "C06": {
        "level": "proof",
        "lean_modules": ["SqlizeModel.Props.C06", "SqlizeModel.Props.TieBuilder"],
        "theorems": ["Sqlize.C06.table_name", "Sqlize.C06.ignored_field", "Sqlize.C06.embedded_last", "Sqlize.C06.pk_first", "Sqlize.C06.column_name", "Sqlize.C06.default_name", "Sqlize.C06.primary_key_iff", "Sqlize.C06.not_null_iff", "Sqlize.C06.null_iff",
                     "Sqlize.C06.auto_increment_iff", "Sqlize.C06.foreign_key_only_from_its_items", "Sqlize.Builder.tagItem_name_eq", "Sqlize.Tie.builder_skeleton_as_modelled"],
        "suites": [{"name": "struct", "kind": "struct"}],
        "corr_points": ["AddTable", "FromObjects-dump", "FromObjects-hash"],
        "rule": STRUCT_RULE,
        "trusted_base": COMMON_TB + PAIR_TB + ["reflect is not modelled: a declaration is what reflect shows (field names, Go types incl. nil / non-nil pointers, raw tags, TableName method), produced by the generator next to the Go source",
                                               "the expected schema is derived by the generator from the structured tag items by the documented conventions (independent of builder and model)",
                                               "Impl/Atoms.lean: how the MySQL parser canonicalises type spellings (validated by the same runs)"],
        "assumptions": ["exported ASCII field names", "supported Go types (no nil pointers / slices without a type tag)", "at least one column"],
        "explanation": "Proved of the builder model: table naming, ignored fields, own-then-embedded order, primary key first with the other lines in "
                       "order; of the tag switch, for every tag: the column name is the last column: item (or the prefixed snake_case field name), and each option flag "
                       "(primary key, not null, null, auto increment) is set iff one of the tag's items is that key in either spelling; a foreign-key attribute only "
                       "from its own items. The rest of the per-field clause (type mapping, one line per field) is decided by exact DDL text correspondence plus the "
                       "expected-schema oracle on generated structs.",
    },
    "C10": {
        "level": "proof",
        "lean_modules": ["SqlizeModel.Props.TieStrGo", "SqlizeModel.Props.C10", "SqlizeModel.Props.TieBuilder", "SqlizeModel.Props.TieTemplates"],
        "theorems": ["Sqlize.Tie.translated_is_model", "Sqlize.C10.keyword_spellings", "Sqlize.C10.keywords_fixed", "Sqlize.C10.apply_only_case", "Sqlize.C10.hash_case_free", "Sqlize.C10.keyword_case_statement", "Sqlize.C10.keyword_case_migration", "Sqlize.C10.keyword_case_migration_known_index_types", "Sqlize.usingOK_known", "Sqlize.render_case_only", "Sqlize.migration_case_only", "Sqlize.sprintfAux_case", "Sqlize.templates_ok", "Sqlize.definition_case", "Sqlize.opt_case", "Sqlize.Tie.builder_skeleton_as_modelled", "Sqlize.Tie.templates_skeleton_as_modelled"],
        "suites": [{"name": "struct", "kind": "struct"}, {"name": "hash"}, {"name": "pair"}],
        "corr_points": ["AddTable", "AddTable-other-case", "StringUp-other-case", "StringDown-other-case"],
        "rule": STRUCT_RULE + " | C10: per tag keyword a random camelCase / snake_case spelling and a shuffled item order, the expected schema does not "
                "depend on either; every struct is rendered under both keyword-case options (texts equal up to ASCII case, quoted identifiers / "
                "literals / comments identical); hash suite: same HashValue under both options; pair suite: every pair's StringUp / StringDown is "
                "printed under both keyword-case options: equal up to ASCII case, identical inside quotes (identifiers, string literals, enum labels, "
                "comments), and equal to the model's rendering under the other option",
        "trusted_base": COMMON_TB + PAIR_TB,
        "assumptions": ["exported ASCII field names"],
        "explanation": "Proved by kernel evaluation of the ToSnakeCase model: every documented camelCase spelling normalises to the keyword the tag "
                       "switch tests; proved over the regenerated templates: the lower-case option is exactly ASCII lower-casing of the template; "
                       "fingerprint independent of the option (C07); and for every dialect, statement and migration (identifiers, literals, comments, type names of any spelling): "
                       "the text printed under the lower-case option and the text printed without it are equal up to ASCII case and fail with the same message when the renderer fails "
                       "(keyword_case_statement, keyword_case_migration; Proofs/CaseOnly: the option reaches the text through the template — lower-cased before substitution — and the option keywords only; "
                       "fmt.Sprintf's scanner sees the same verbs in a template and in its lower-casing because no % of a regenerated template is followed by a capital S, D, T: templates_ok, kernel evaluation over Generated/Facts.lean; "
                       "hypothesis: a user-given index type, which becomes part of the template, contains no %S/%D/%T). The first proof needed a second hypothesis (no definition whose PRIMARY KEY is stripped); "
                       "run on the real code, the excluded point was a genuine defect (MODIFY of a key column cut the words out of a comment containing them), repaired in /repo (29f88f1), and the hypothesis is gone.",
    },
}
