"""Per-property configuration of /verif/bin/check: which Lean modules carry the theorems, which harness suites tie the
model to /repo, and the trusted base that goes into the evidence."""

ALLOWED_AXIOMS = {"propext", "Classical.choice", "Quot.sound"}
FORBIDDEN_TOKENS = [r"\bsorry\b", r"\badmit\b", r"^axiom\s", r"native_decide", r"bv_decide", r"implemented_by",
                    r"\bunsafe\s", r"maxHeartbeats\s+0"]

COMMON_TB = [
    "Lean 4.33.0 kernel (thorough tier: re-checked with leanchecker); axioms audited per theorem, allowed: propext, Classical.choice, Quot.sound",
    "statement files lean/SqlizeModel/Props/*.lean and Spec/*.lean are read, not proved",
    "Go harness (generators, canonicalisation) and Lean driver I/O shell; bin/check",
]

PROPS = {
    "C16": {
        "level": "proof",
        "lean_modules": ["SqlizeModel.Props.C16"],
        "theorems": ["Sqlize.C16.main", "Sqlize.C16.noCollision"],
        "uses_facts": False,
        "suites": [{"name": "snake"}],
        "rule": "exhaustive strings over {a,s,B,1,_} up to length 6 (quick) / 9 (thorough) + random ASCII identifiers "
                "of length 1..25 biased to caps runs and final 's'; every case: utils.ToSnakeCase(input) compared with the "
                "Lean model Snake.toSnake and the executable C16 predicate SnakeSpec.snakeSpecOK evaluated on the Go output; "
                "non-trivial = output differs from input; distinct by input",
        "trusted_base": COMMON_TB + [
            "hand-written model Impl/Snake.lean of utils.ToSnakeCase, tied by correspondence on the enumerated/generated inputs only",
            "ASCII input only: Go truncates non-ASCII runes to bytes, which the model does not represent",
        ],
        "assumptions": ["identifiers are ASCII (Go identifiers of exported struct fields used by the builder)"],
        "explanation": "C16.main proves, for every input list of characters, that the model of ToSnakeCase is a marking of the "
                       "lower-cased input obeying the placement rules, idempotent, and accepted by the executable predicate; "
                       "C16.noCollision proves loss-freeness up to case/underscores.",
    },
}
