#!/usr/bin/env python3
"""showcase.py <cases> <verdicts> <id>: print a case readably"""
import sys,re
def unq(s): return s.encode().decode('unicode_escape') if False else s.replace('\\n','\n').replace('\\"','"')
for l in open(sys.argv[1]):
    if l.startswith('(case %s '%sys.argv[3]):
        m=re.match(r'\(case \S+ \S+ (\(cfg[^)]*\)) (.*) \(\(errOld',l)
        print(m.group(1)); print('INPUT', m.group(2)[:3000])
        for k in ['errOld','errNew','errDiff','up','down','upFlip']:
            mm=re.search(r'\(%s "((?:[^"\\]|\\.)*)"\)'%k,l)
            if mm: print('--',k); print(unq(mm.group(1)))
for l in open(sys.argv[2]):
    if l.startswith(sys.argv[3]+'\t'): print(l[:3000])
