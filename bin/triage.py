#!/usr/bin/env python3
"""triage helper: group failing verdict items; usage: triage.py <cases> <verdicts> [dialect] [prop]"""
import re,collections,sys
cases={}
for l in open(sys.argv[1]):
    m=re.match(r'\(case (\S+) (\S+) \(cfg (\S+) (\S+) (\S+)\)',l)
    if m: cases[m.group(1)]=(m.group(3),m.group(4),m.group(5),len(l),l)
want_d=sys.argv[3] if len(sys.argv)>3 else None
want_p=sys.argv[4] if len(sys.argv)>4 else None
cnt=collections.Counter(); ex={}
for l in open(sys.argv[2]):
    cid,st,det=l.rstrip('\n').split('\t',2)
    if st!='fail' or cid not in cases: continue
    if want_d and cases[cid][0]!=want_d: continue
    for item in det.split(' | '):
        m=re.match(r'(prop|corr)\[([^\]]+)\]: (.*)',item)
        if not m: continue
        if want_p and m.group(2)!=want_p: continue
        why=re.sub(r'[`"\'][^`"\']*[`"\']','X',m.group(3))
        why=re.sub(r'\d+','N',why)
        key=(m.group(1),m.group(2),why[:90])
        cnt[key]+=1
        if key not in ex or cases[cid][3]<ex[key][1]: ex[key]=(cid,cases[cid][3],item)
for k,v in sorted(cnt.items(),key=lambda x:-x[1])[:30]:
    print(v,k, ex[k][0])
    print('     ',ex[k][2][:600])
